use std::path::PathBuf;

use serde_json::json;
use vsim::{
    chan_inline::{threads::ChanThreads, ChanInline},
    ctx_frames::CtxFrames,
    ctx_probes::CallingContexts,
    fs_diff::FsDiff,
    ctx_spans::CtxSpans,
    file_e2e::FileE2e,
    fsim::Fsim,
    otlp_sim::OtlpSim,
    tokio_recv::TokioReceiver,
    choices::Choices,
    core::{self, BatchCfg, Engine, Part, RunCtx},
};

#[global_allocator]
static ALLOC: core::CountingAlloc = core::CountingAlloc;

fn verif_dir() -> PathBuf {
    std::env::var_os("VERIF_DIR").map(PathBuf::from).unwrap_or_else(|| PathBuf::from("/verif"))
}

fn threads() -> usize {
    std::env::var("VERIF_THREADS")
        .ok()
        .and_then(|s| s.parse().ok())
        .unwrap_or_else(|| std::thread::available_parallelism().map(|n| n.get()).unwrap_or(4))
}

fn static_prop(p: &str) -> &'static str {
    for k in ["C03", "C04", "C05", "C06", "C07", "C08", "C09", "C10", "C11", "C12", "C14", "C18", "C20"] {
        if k == p {
            return k;
        }
    }
    eprintln!("unknown or unclaimed property {p}");
    std::process::exit(2);
}

/// Engines (with run counts for quick / thorough) that together decide `property`.
fn engines_for(property: &str) -> Vec<(Box<dyn Engine>, u64, u64)> {
    match property {
        "C08" => vec![
            (Box::new(ChanInline), 1_000_000, 20_000_000),
            (Box::new(ChanThreads), 100_000, 3_000_000),
            (Box::new(CallingContexts), 2400, 12000),
            (Box::new(TokioReceiver), 800, 8000),
            (Box::new(FileE2e), 30_000, 1_000_000),
            (Box::new(OtlpSim { focus: "C12" }), 15_000, 500_000),
        ],
        "C09" => vec![
            (Box::new(ChanInline), 1_000_000, 20_000_000),
            (Box::new(ChanThreads), 100_000, 3_000_000),
            (Box::new(CallingContexts), 2400, 12000),
            (Box::new(TokioReceiver), 800, 8000),
            (Box::new(FileE2e), 30_000, 1_000_000),
            (Box::new(OtlpSim { focus: "C12" }), 15_000, 500_000),
        ],
        "C07" => vec![
            (Box::new(ChanInline), 1_000_000, 20_000_000),
            (Box::new(ChanThreads), 100_000, 3_000_000),
            (Box::new(TokioReceiver), 800, 8000),
            (Box::new(FileE2e), 30_000, 1_000_000),
            (Box::new(OtlpSim { focus: "C12" }), 15_000, 500_000),
        ],
        "C06" => vec![
            (Box::new(ChanInline), 1_000_000, 20_000_000),
            (Box::new(ChanThreads), 100_000, 3_000_000),
            (Box::new(TokioReceiver), 800, 8000),
            (Box::new(FileE2e), 30_000, 1_000_000),
        ],
        "C03" => vec![(Box::new(CtxFrames), 150_000, 6_000_000)],
        "C04" => vec![(Box::new(CtxSpans { focus: "C04" }), 150_000, 5_000_000)],
        "C05" => vec![(Box::new(CtxSpans { focus: "C05" }), 300_000, 8_000_000)],
        "C18" => vec![(Box::new(CtxSpans { focus: "C18" }), 150_000, 5_000_000)],
        "C12" => vec![(Box::new(OtlpSim { focus: "C12" }), 40_000, 1_500_000)],
        "C14" => vec![(Box::new(OtlpSim { focus: "C14" }), 60_000, 2_000_000)],
        "C10" => vec![
            (Box::new(Fsim { mode: "C10" }), 5_000, 200_000),
            (Box::new(FsDiff), 3_000, 100_000),
            (Box::new(FileE2e), 20_000, 600_000),
        ],
        "C11" => vec![
            (Box::new(Fsim { mode: "C11" }), 1_000_000, 30_000_000),
            (Box::new(FsDiff), 4_000, 150_000),
            (Box::new(FileE2e), 20_000, 600_000),
        ],
        _ => vec![],
    }
}

fn engine_by_name(name: &str) -> Option<Box<dyn Engine>> {
    match name {
        "chan-inline" => Some(Box::new(ChanInline)),
        "chan-threads" => Some(Box::new(ChanThreads)),
        "calling-contexts" => Some(Box::new(CallingContexts)),
        "tokio-receiver" => Some(Box::new(TokioReceiver)),
        "ctx-frames" => Some(Box::new(CtxFrames)),
        "file-e2e" => Some(Box::new(FileE2e)),
        "fsim-realfs" => Some(Box::new(FsDiff)),
        "otlp-delivery" => Some(Box::new(OtlpSim { focus: "C12" })),
        "otlp-routing" => Some(Box::new(OtlpSim { focus: "C14" })),
        "ctx-spans-tree" => Some(Box::new(CtxSpans { focus: "C04" })),
        "ctx-spans-completion" => Some(Box::new(CtxSpans { focus: "C05" })),
        "ctx-spans-traceparent" => Some(Box::new(CtxSpans { focus: "C18" })),
        "fsim-faults" => Some(Box::new(Fsim { mode: "C10" })),
        "fsim-rolling" => Some(Box::new(Fsim { mode: "C11" })),
        _ => None,
    }
}

fn main() {
    let args: Vec<String> = std::env::args().skip(1).collect();
    core::install_panic_hook();
    match args.first().map(|s| s.as_str()) {
        Some("check") => {
            let property = static_prop(args.get(1).map(|s| s.as_str()).unwrap_or(""));
            let tier = args.get(2).map(|s| s.as_str()).unwrap_or("quick");
            let thorough = tier == "thorough";
            let seed: u64 = std::env::var("VERIF_SEED").ok().and_then(|s| s.parse().ok()).unwrap_or(1);
            let runs_override: Option<u64> = std::env::var("VERIF_RUNS").ok().and_then(|s| s.parse().ok());
            let engines = engines_for(property);
            if engines.is_empty() {
                eprintln!("no engine for {property}");
                std::process::exit(2);
            }
            let mut parts: Vec<Part> = Vec::new();
            for (engine, quick, thor) in engines.iter() {
                let cfg = BatchCfg {
                    property,
                    thorough,
                    seed,
                    runs: runs_override.unwrap_or(if thorough { *thor } else { *quick }),
                    threads: threads(),
                    max_wall_s: if thorough { 2400.0 } else { 240.0 },
                    verif_dir: verif_dir(),
                    label: engine.name().to_string(),
                    shard: (0, 1),
                };
                let agg = core::run_batch(engine.as_ref(), &cfg);
                parts.push(Part {
                    engine: engine.as_ref(),
                    cfg,
                    agg,
                });
            }
            let res = core::report(
                property,
                if property == "C10" { "fault_enumeration" } else { "exploration" },
                tier,
                seed,
                &mut parts,
                json!({}),
                vec![
                    "the simulator's reference models and oracles are correct".into(),
                    "interleavings are sampled from a seeded PRNG, not enumerated: a clean batch is evidence, not proof".into(),
                ],
            );
            std::process::exit(res.exit_code);
        }
        Some("worker") => {
            // worker <engine> <property> <tier> <seed> <runs> <k/n> <max_wall_s>: one shard of a batch, result as JSON on stdout
            let engine = engine_by_name(&args[1]).expect("engine");
            let property = static_prop(&args[2]);
            let thorough = args[3] == "thorough";
            let seed: u64 = args[4].parse().unwrap();
            let runs: u64 = args[5].parse().unwrap();
            let (k, n) = args[6].split_once('/').unwrap();
            let cfg = BatchCfg {
                property,
                thorough,
                seed,
                runs,
                threads: 1,
                max_wall_s: args[7].parse().unwrap(),
                verif_dir: verif_dir(),
                label: engine.name().to_string(),
                shard: (k.parse().unwrap(), n.parse().unwrap()),
            };
            let agg = core::run_batch_local(engine.as_ref(), &cfg);
            println!("{}", agg.to_json());
        }
        Some("runseed") => {
            // runseed <engine> <property> <tier> <run-seed>: execute the one run this seed generates (used to replay a
            // run that kills its process)
            let engine = engine_by_name(&args[1]).expect("engine");
            let property = static_prop(&args[2]);
            let thorough = args[3] == "thorough";
            let run_seed: u64 = args[4].parse().unwrap();
            let mut ch = Choices::from_seed(run_seed);
            let ctx = RunCtx {
                property,
                thorough,
                want_trace: true,
            };
            match core::run_once(engine.as_ref(), &mut ch, &ctx) {
                Ok(o) => {
                    for l in &o.trace {
                        println!("{l}");
                    }
                    println!("the run completed ({} violations)", o.violations.len());
                }
                Err(e) => println!("harness error: {e}"),
            }
        }
        Some("trace") => {
            // trace <engine> <property> <index> [thorough]: print the recorded history of one run (debugging aid)
            let engine = engine_by_name(&args[1]).expect("engine");
            let property = static_prop(&args[2]);
            let idx: u64 = args[3].parse().unwrap();
            let thorough = args.get(4).map(|s| s == "thorough").unwrap_or(false);
            let seed: u64 = std::env::var("VERIF_SEED").ok().and_then(|s| s.parse().ok()).unwrap_or(1);
            let cfg = BatchCfg {
                property,
                thorough,
                seed,
                runs: 1,
                threads: 1,
                max_wall_s: 1e9,
                verif_dir: verif_dir(),
                label: engine.name().to_string(),
                shard: (0, 1),
            };
            let mut ch = Choices::from_seed(core::run_seed(&cfg, idx));
            let ctx = RunCtx {
                property,
                thorough,
                want_trace: true,
            };
            match core::run_once(engine.as_ref(), &mut ch, &ctx) {
                Ok(o) => {
                    for l in &o.trace {
                        println!("{l}");
                    }
                    println!("hash {:016x} violations {}", o.trace_hash, o.violations.len());
                }
                Err(e) => println!("harness error: {e}"),
            }
        }
        Some("hashes") => {
            // hashes <engine> <property> <n> [thorough]: print "index history-hash violations" for runs 0..n (determinism self-test)
            let engine = engine_by_name(&args[1]).expect("engine");
            let property = static_prop(&args[2]);
            let n: u64 = args[3].parse().unwrap();
            let thorough = args.get(4).map(|s| s == "thorough").unwrap_or(false);
            let seed: u64 = std::env::var("VERIF_SEED").ok().and_then(|s| s.parse().ok()).unwrap_or(1);
            let cfg = BatchCfg {
                property,
                thorough,
                seed,
                runs: n,
                threads: 1,
                max_wall_s: 1e9,
                verif_dir: verif_dir(),
                label: engine.name().to_string(),
                shard: (0, 1),
            };
            let nthreads = threads();
            let results: std::sync::Mutex<Vec<(u64, u64, usize)>> = std::sync::Mutex::new(Vec::new());
            let next = std::sync::atomic::AtomicU64::new(0);
            std::thread::scope(|s| {
                for _ in 0..nthreads {
                    s.spawn(|| loop {
                        let idx = next.fetch_add(1, std::sync::atomic::Ordering::Relaxed);
                        if idx >= n {
                            break;
                        }
                        let mut ch = Choices::from_seed(core::run_seed(&cfg, idx));
                        let ctx = RunCtx {
                            property,
                            thorough,
                            want_trace: false,
                        };
                        let (h, v) = match core::run_once(engine.as_ref(), &mut ch, &ctx) {
                            Ok(o) => (o.trace_hash, o.violations.len()),
                            Err(_) => (0, usize::MAX),
                        };
                        results.lock().unwrap().push((idx, h, v));
                    });
                }
            });
            let mut r = results.into_inner().unwrap();
            r.sort();
            for (i, h, v) in r {
                println!("{i} {h:016x} {v}");
            }
        }
        Some("replay") => {
            let path = PathBuf::from(args.get(1).expect("replay <file>"));
            let doc = match core::read_replay(&path) {
                Ok(d) => d,
                Err(e) => {
                    eprintln!("cannot read replay: {e}");
                    std::process::exit(2);
                }
            };
            let Some(engine) = engine_by_name(&doc.engine) else {
                eprintln!("unknown engine {}", doc.engine);
                std::process::exit(2);
            };
            let property = static_prop(&doc.property);
            let ctx = RunCtx {
                property,
                thorough: doc.thorough,
                want_trace: true,
            };
            if doc.aborts_process {
                // execute the run, named by its seed, in a child: it is expected to kill its process
                use std::os::unix::process::ExitStatusExt;
                let mut child = std::process::Command::new(std::env::current_exe().expect("current exe"))
                    .arg("runseed")
                    .arg(&doc.engine)
                    .arg(&doc.property)
                    .arg(if doc.thorough { "thorough" } else { "quick" })
                    .arg(doc.run_seed.to_string())
                    .spawn()
                    .expect("spawn child");
                // (a run that hung is given the same patience as in the batch, then killed)
                let stall_s: f64 = std::env::var("VERIF_STALL_S").ok().and_then(|s| s.parse().ok()).unwrap_or(if doc.thorough { 600.0 } else { 240.0 });
                let started = std::time::Instant::now();
                let status = loop {
                    if let Ok(Some(st)) = child.try_wait() {
                        break st;
                    }
                    if started.elapsed().as_secs_f64() > stall_s {
                        let _ = child.kill();
                        let _ = child.wait();
                        println!("violation: property={} rule={} detail=the run made no progress for {stall_s} s again and was killed", doc.property, doc.rule);
                        println!("VIOLATION property={} replay={}", doc.property, path.display());
                        std::process::exit(1);
                    }
                    std::thread::sleep(std::time::Duration::from_millis(100));
                };
                match status.signal() {
                    Some(sig) => {
                        println!("violation: property={} rule={} detail=the run killed its process again (signal {sig})", doc.property, doc.rule);
                        println!("VIOLATION property={} replay={}", doc.property, path.display());
                        std::process::exit(1);
                    }
                    None => {
                        println!("replay did not reproduce {}/{} (the child exited with {status})", doc.property, doc.rule);
                        std::process::exit(0);
                    }
                }
            }
            let mut ch = Choices::from_record(&doc.choices);
            match core::run_once(engine.as_ref(), &mut ch, &ctx) {
                Ok(o) => {
                    for line in &o.trace {
                        println!("{line}");
                    }
                    let hash = format!("{:016x}", o.trace_hash);
                    let hit = o.violations.iter().find(|v| v.property == doc.property && v.rule == doc.rule);
                    if hash != doc.trace_hash {
                        eprintln!("replay diverged: history hash {hash} != recorded {} (nondeterminism or the code changed)", doc.trace_hash);
                        if hit.is_none() {
                            std::process::exit(2);
                        }
                    }
                    match hit {
                        Some(v) => {
                            println!("violation: property={} rule={} detail={}", v.property, v.rule, v.detail);
                            println!("VIOLATION property={} replay={}", v.property, path.display());
                            std::process::exit(1);
                        }
                        None => {
                            println!("replay did not reproduce {}/{}", doc.property, doc.rule);
                            std::process::exit(0);
                        }
                    }
                }
                Err(e) => {
                    eprintln!("HARNESS-ERROR {e}");
                    std::process::exit(2);
                }
            }
        }
        _ => {
            eprintln!("usage: simcheck check <property> <quick|thorough> | replay <file>");
            std::process::exit(2);
        }
    }
}
