//! `chan` engine, inline mode: the real `emit_batcher` channel (`lib.rs`, `tokio::{send, flush}`)
//! on one OS thread. The receiver (`Receiver::exec`) is a future polled by the controller; sender
//! operations are executed between (and, through the `before_lock` hook and the processor / wait /
//! watcher seams, *inside*) receiver steps. Every decision comes from the choice stream.

use std::{
    collections::{BTreeMap, BTreeSet},
    future::Future,
    panic::{self, AssertUnwindSafe},
    pin::Pin,
    sync::{Arc, Mutex},
    task::{Context, Poll, Wake, Waker},
    time::Duration,
};

use emit_batcher::{verif, BatchError, Receiver, Sender};
use serde_json::{json, Value};

use crate::{
    choices::Choices,
    core::{history_hash, Engine, Injected, Outcome, RunCtx},
    rng::Fnv,
};

pub struct ChanInline;

type Item = u32;
type Chan = Vec<Item>;

thread_local! {
    // the critical section the calling thread is about to execute (set by the actor, read by the model at the lock hook)
    static CS_ITEM: std::cell::Cell<Option<Item>> = const { std::cell::Cell::new(None) };
    static CS_WATCH: std::cell::Cell<Option<u32>> = const { std::cell::Cell::new(None) };
    static CS_RESULT: std::cell::Cell<Option<bool>> = const { std::cell::Cell::new(None) };
    static IN_SENDER_OP: std::cell::Cell<u32> = const { std::cell::Cell::new(0) };
    /// which public operation the calling thread is executing: 1 plain send, 2 try_send, 3 async / blocking send
    static CS_OP: std::cell::Cell<u8> = const { std::cell::Cell::new(0) };
}

struct NoopWake;
impl Wake for NoopWake {
    fn wake(self: Arc<Self>) {}
}
fn noop_waker() -> Waker {
    Arc::new(NoopWake).into()
}

#[derive(Debug)]
struct TestErr;
impl std::fmt::Display for TestErr {
    fn fmt(&self, f: &mut std::fmt::Formatter) -> std::fmt::Result {
        f.write_str("injected")
    }
}
impl std::error::Error for TestErr {}

// ---------------------------------------------------------------------------------------------
// History events (for post-hoc checks)

#[derive(Clone, Debug)]
enum Ev {
    SendReturn { seq: u64, item: Item, accepted: bool },
    Truncate { seq: u64, items: Vec<Item> },
    AttemptStart { seq: u64, batch_no: u64, attempt: u32, items: Vec<Item> },
    AttemptEnd { seq: u64, batch_no: u64 },
    FlushRequest { seq: u64, id: u32 },
    FlushDone { seq: u64, id: u32 },
    Teardown { seq: u64 },
}

#[derive(Clone, Debug, PartialEq)]
enum ProcOutcome {
    Ok,
    Fail,
    Retry(Vec<Item>),
    PanicSync,
    PanicAsync,
}

struct CurBatch {
    no: u64,
    first: Vec<Item>,
    expected_next: Vec<Item>,
    attempts: u32,
    last_retry_pending: bool,
    waits: Vec<Duration>,
    attempt_open: bool,
}

#[derive(Default)]
struct CbInfo {
    kind: &'static str,
    fired: u32,
    registered_after_teardown: bool,
}

struct World {
    now: Duration,
    deadlines: BTreeSet<Duration>,
    seq: u64,
    trace: Vec<String>,
    events: Vec<Ev>,
    out: Outcome,
    // model
    cap: usize,
    pending: Vec<Item>,
    open: bool,
    in_batch: bool,
    truncations: u64,
    on_take: Vec<u32>,
    on_flush: Vec<u32>,
    cur: Option<CurBatch>,
    cur_on_flush: Vec<u32>,
    batch_no: u64,
    first_batch_first_wait: Option<Duration>,
    max_exhausted_attempts: Option<u32>,
    // bookkeeping
    cbs: BTreeMap<u32, CbInfo>,
    next_cb: u32,
    next_item: Item,
    torn_down: bool,
    sender_dropped: bool,
    rx_done: bool,
    rx_sleep_until: Option<Duration>,
    fault_budget: u32,
    rx_on_stack: bool,
    clock_reading_cost: bool,
    clock_readings: u64,
    aborted: bool,
    /// number of violations recorded when the run was aborted: what the wreckage reports afterwards is dropped
    violations_at_abort: Option<usize>,
    focus: u8,
    retry_storm: bool,
    accepted_order: Vec<Item>,
    delivered_first: Vec<Item>,
    truncated_items: BTreeSet<Item>,
    ops_during_batch: u64,
}

impl World {
    fn log(&mut self, s: String) {
        self.seq += 1;
        self.trace.push(format!("{:>4} t={:?} {}", self.seq, self.now, s));
    }
    fn next_seq(&mut self) -> u64 {
        self.seq += 1;
        self.seq
    }
    fn abstract_state(&mut self) {
        let mut h = Fnv::new();
        h.u64(self.pending.len().min(self.cap + 1) as u64);
        h.u64(self.in_batch as u64);
        h.u64(self.open as u64);
        h.u64((!self.on_take.is_empty()) as u64);
        h.u64((!self.on_flush.is_empty()) as u64);
        h.u64(self.cur.as_ref().map(|c| c.attempts.min(12) as u64 + 1).unwrap_or(0));
        h.u64(self.cur.as_ref().map(|c| c.attempt_open as u64).unwrap_or(2));
        h.u64(self.rx_sleep_until.is_some() as u64);
        h.u64(self.sender_dropped as u64);
        h.u64(self.torn_down as u64);
        let v = h.finish();
        self.out.states.insert(v);
    }
}

struct Sh {
    world: Mutex<World>,
    choices: Mutex<Choices>,
    /// thread mode: the scheduler owns the choice stream
    ext_choose: Option<Arc<dyn Fn(u32) -> u32 + Send + Sync>>,
    inline: bool,
    yielder: Option<Arc<dyn Fn(&'static str) + Send + Sync>>,
    sender: Mutex<Option<Arc<Sender<Chan>>>>,
    actors: Mutex<Vec<Actor>>,
    /// thread mode with a clock-reading cost: how far the clock the code under test reads is ahead of the virtual
    /// clock the harness measures with (nanoseconds); "gave up early" rules allow for it
    clock_ahead_ns: std::sync::atomic::AtomicU64,
    /// a crowd of async flushes waiting on one batch (more than a thousand: any number of concurrent flushers)
    storm: Mutex<Vec<AsyncOp>>,
}

impl Sh {
    fn clock_ahead(&self) -> Duration {
        Duration::from_nanos(self.clock_ahead_ns.load(std::sync::atomic::Ordering::Relaxed))
    }
}

type ShRef = Arc<Sh>;

fn w<R>(sh: &Sh, f: impl FnOnce(&mut World) -> R) -> R {
    let mut g = sh.world.lock().unwrap_or_else(|e| e.into_inner());
    f(&mut g)
}
fn choose(sh: &Sh, n: u32) -> u32 {
    match &sh.ext_choose {
        Some(f) => f(n.max(1)),
        None => sh.choices.lock().unwrap_or_else(|e| e.into_inner()).choose(n),
    }
}
fn chance(sh: &Sh, num: u32, den: u32) -> bool {
    choose(sh, den) >= den - num
}
fn weighted(sh: &Sh, weights: &[u32]) -> usize {
    let total: u32 = weights.iter().sum();
    let mut v = choose(sh, total.max(1));
    for (i, w) in weights.iter().enumerate() {
        if v < *w {
            return i;
        }
        v -= *w;
    }
    0
}

// ---------------------------------------------------------------------------------------------
// Hooks

struct InlineHooks {
    sh: ShRef,
}

impl verif::Hooks for InlineHooks {
    fn before_lock(&self, site: &'static str) {
        let sh = &self.sh;
        if w(sh, |w| w.aborted) {
            return;
        }
        match site {
            "exec_swap" => {
                // control point immediately before the hand-off
                interleave(sh, "before_swap");
                model_swap(sh);
            }
            "send" => model_send(sh),
            "try_send" => model_try_send(sh),
            "when_empty" => model_when_empty(sh),
            "when_flushed" => model_when_flushed(sh),
            "sender_drop" => w(sh, |w| {
                w.open = false;
                w.sender_dropped = true;
                w.log("sender dropped".into());
            }),
            "receiver_drop" => w(sh, |w| {
                w.open = false;
            }),
            // an acquisition no hook line announces (added since the sites were instrumented): when it is the receiver
            // that takes it, senders may run right before it, as before every other critical section of the receiver
            "unannounced_lock" => {
                if w(sh, |w| w.rx_on_stack) {
                    w(sh, |w| w.out.probe("receiver_took_an_unannounced_lock"));
                    interleave(sh, "unannounced_lock");
                }
            }
            _ => {}
        }
    }

    fn lock_contended(&self, site: &'static str) {
        w(&self.sh, |w| {
            w.aborted = true;
            w.out.violate(
                "C09",
                "lock_held_at_control_point",
                format!("channel state lock is held while user code (processor, watcher or metrics sampler) runs; a sender at `{site}` would wait on the destination"),
            );
            w.out.violate(
                "C08",
                "lock_held_at_control_point",
                format!("channel state lock is held while user code (processor, watcher or metrics sampler) runs; the operation at `{site}` waits for it before any timeout counts (and deadlocks if that user code is what runs it)"),
            );
            w.log(format!("LOCK CONTENDED at {site}"));
            if w.violations_at_abort.is_none() {
                w.violations_at_abort = Some(w.out.violations.len());
            }
        });
        panic::panic_any(Injected("abort_run"));
    }

    fn now(&self) -> Duration {
        // (running code takes time: in runs with a clock-reading cost every reading is a nanosecond later than the
        // previous one, so the code under test never sees zero elapsed time)
        let sh = &self.sh;
        w(sh, |w| {
            if w.clock_reading_cost {
                w.clock_readings += 1;
                sh.clock_ahead_ns.store(w.clock_readings, std::sync::atomic::Ordering::Relaxed);
                w.now + Duration::from_nanos(w.clock_readings)
            } else {
                w.now
            }
        })
    }

    fn timer(&self, deadline: Duration, _waker: &Waker) {
        w(&self.sh, |w| {
            w.deadlines.insert(deadline);
        });
    }
}

// ---------------------------------------------------------------------------------------------
// Model steps, applied at the instant each critical section executes

fn model_send(sh: &Sh) {
    w(sh, |w| {
        let Some(item) = CS_ITEM.with(|c| c.get()) else { return };
        if w.torn_down {
            return;
        }
        if w.pending.len() >= w.cap {
            let op = CS_OP.with(|c| c.get());
            if op != 1 {
                let d = format!(
                    "a {} of item {item} went through the lossy path and discarded the pending queue {:?}: only a plain send may truncate",
                    if op == 2 { "try_send" } else { "blocking / async send" },
                    w.pending
                );
                w.out.violate("C09", "fallible_send_discarded_queue", d.clone());
                w.out.violate("C06", "fallible_send_discarded_queue", d);
            }
            let dropped = std::mem::take(&mut w.pending);
            w.truncations += 1;
            for i in &dropped {
                w.truncated_items.insert(*i);
            }
            let seq = w.next_seq();
            w.log(format!("model: overflow truncation of {dropped:?}"));
            w.events.push(Ev::Truncate { seq, items: dropped });
            w.out.probe("overflow_truncation");
            if !w.on_flush.is_empty() || !w.on_take.is_empty() {
                w.out.probe("truncation_with_watchers_attached");
            }
            if w.in_batch {
                w.out.probe("truncation_while_in_batch");
            }
        }
        if w.open {
            w.pending.push(item);
            CS_RESULT.with(|c| c.set(Some(true)));
        } else {
            CS_RESULT.with(|c| c.set(Some(false)));
        }
        if w.in_batch {
            w.ops_during_batch += 1;
        }
    })
}

fn model_try_send(sh: &Sh) {
    w(sh, |w| {
        let Some(item) = CS_ITEM.with(|c| c.get()) else { return };
        if w.torn_down {
            return;
        }
        if w.open && w.pending.len() < w.cap {
            w.pending.push(item);
            CS_RESULT.with(|c| c.set(Some(true)));
        } else {
            CS_RESULT.with(|c| c.set(Some(false)));
            if w.open {
                w.out.probe("try_send_full");
            }
        }
        if w.in_batch {
            w.ops_during_batch += 1;
        }
    })
}

fn model_when_empty(sh: &Sh) {
    w(sh, |w| {
        let Some(id) = CS_WATCH.with(|c| c.get()) else { return };
        if w.torn_down {
            return;
        }
        if !w.pending.is_empty() {
            w.on_take.push(id);
        }
    })
}

fn model_when_flushed(sh: &Sh) {
    w(sh, |w| {
        let Some(id) = CS_WATCH.with(|c| c.get()) else { return };
        if w.torn_down {
            return;
        }
        if w.in_batch {
            w.out.probe("flush_requested_while_in_batch");
            if w.cur.as_ref().map(|c| c.last_retry_pending).unwrap_or(false) {
                w.out.probe("flush_requested_during_retry_backoff");
            }
        }
        if !(!w.in_batch && (w.pending.is_empty() || !w.open)) {
            w.on_flush.push(id);
        }
    })
}

fn finish_cur(w: &mut World) {
    if let Some(cur) = w.cur.take() {
        if cur.attempt_open {
            // the attempt never reported completion before the receiver moved on
            w.out.violate(
                "C06",
                "attempt_abandoned",
                format!("batch #{} attempt {} was still running when the receiver moved on", cur.no, cur.attempts),
            );
        }
        if cur.last_retry_pending && cur.attempts <= 1 {
            let d = format!(
                "processor asked to retry {:?} of batch #{} but the receiver gave up without a single retry",
                cur.expected_next, cur.no
            );
            w.out.violate("C06", "retry_dropped", d.clone());
            w.out.violate("C08", "retry_dropped", d);
        }
        if cur.last_retry_pending {
            w.out.probe("retry_budget_exhausted");
            // the budget is per batch: a later batch must not be given up after far fewer attempts than an earlier one
            // (compared loosely - less than half - so a budget that is not a plain count does not alarm)
            if let Some(max_seen) = w.max_exhausted_attempts {
                if cur.attempts * 2 < max_seen && cur.attempts > 1 {
                    let d = format!(
                        "batch #{} was given up after {} attempts although its processor still asked for a retry; an earlier batch got {} attempts (the retry budget is not reset per batch)",
                        cur.no, cur.attempts, max_seen
                    );
                    w.out.violate("C08", "retry_budget_not_reset", d.clone());
                    w.out.violate("C06", "retry_budget_not_reset", d);
                }
            }
            w.max_exhausted_attempts = Some(w.max_exhausted_attempts.unwrap_or(0).max(cur.attempts));
        }
    }
}

fn model_swap(sh: &Sh) {
    w(sh, |w| {
        if w.aborted {
            return;
        }
        finish_cur(w);
        w.rx_sleep_until = None;
        if !w.pending.is_empty() {
            w.in_batch = true;
            w.batch_no += 1;
            let items = std::mem::take(&mut w.pending);
            w.cur_on_flush = std::mem::take(&mut w.on_flush);
            w.on_take.clear();
            w.log(format!("model: swap takes batch #{} {:?}", w.batch_no, items));
            w.cur = Some(CurBatch {
                no: w.batch_no,
                first: items.clone(),
                expected_next: items,
                attempts: 0,
                last_retry_pending: false,
                waits: Vec::new(),
                attempt_open: false,
            });
        } else {
            w.in_batch = false;
            w.on_take.clear();
            w.on_flush.clear();
            w.cur_on_flush.clear();
        }
        w.abstract_state();
    })
}

// ---------------------------------------------------------------------------------------------
// Actors (logical senders sharing one `Sender`)

type BoxFut<T> = Pin<Box<dyn Future<Output = T> + Send>>;

enum AsyncOp {
    Send {
        item: Item,
        started: Duration,
        timeout: Duration,
        fut: BoxFut<Result<(), BatchError<Item>>>,
    },
    Flush {
        id: u32,
        fut: BoxFut<bool>,
    },
}

struct Actor {
    ops_left: u32,
    cur: Option<AsyncOp>,
    on_stack: bool,
}

fn timeout_choice(sh: &Sh) -> Duration {
    match choose(sh, 7) {
        6 => Duration::from_secs(86_400 * 365 * 1000),
        0 => Duration::from_secs(3600),
        1 => Duration::ZERO,
        2 => Duration::from_millis(1),
        3 => Duration::from_millis(400),
        4 => Duration::from_secs(2),
        _ => Duration::from_secs(45),
    }
}

fn new_item(sh: &Sh) -> Item {
    w(sh, |w| {
        w.next_item += 1;
        w.next_item
    })
}

fn new_cb(sh: &Sh, kind: &'static str) -> u32 {
    w(sh, |w| {
        w.next_cb += 1;
        let id = w.next_cb;
        w.cbs.insert(
            id,
            CbInfo {
                kind,
                fired: 0,
                registered_after_teardown: w.torn_down,
            },
        );
        id
    })
}

fn make_cb(sh: &ShRef, id: u32, panics: bool) -> impl FnOnce() + Send + 'static {
    let sh = sh.clone();
    move || {
        let from_rx = w(&sh, |w| {
            let seq = w.next_seq();
            let kind = w.cbs.get(&id).map(|c| c.kind).unwrap_or("?");
            if let Some(cb) = w.cbs.get_mut(&id) {
                cb.fired += 1;
                if cb.fired > 1 {
                    let n = cb.fired;
                    w.out.violate("C08", "callback_fired_twice", format!("{kind} callback {id} fired {n} times"));
                }
            }
            if kind == "flush" {
                w.events.push(Ev::FlushDone { seq, id });
            }
            w.log(format!("callback {kind}#{id} fired"));
            IN_SENDER_OP.with(|c| c.get()) == 0
        });
        if from_rx {
            interleave(&sh, "in_watcher");
        }
        if panics {
            w(&sh, |w| w.out.fault("watcher_panic"));
            panic::panic_any(Injected("watcher"));
        }
    }
}

fn record_send_return(sh: &Sh, item: Item, accepted: bool) {
    w(sh, |w| {
        let seq = w.next_seq();
        w.events.push(Ev::SendReturn { seq, item, accepted });
        if accepted {
            w.accepted_order.push(item);
        }
    })
}

/// Compare the implementation's state with the model after a critical section.
fn check_snapshot(sh: &Sh, what: &str) {
    let Some(sender) = sh.sender.lock().unwrap().clone() else { return };
    let snap = sender.verif_snapshot();
    w(sh, |w| {
        if w.torn_down || w.aborted {
            return;
        }
        if snap.pending > w.cap {
            w.out.violate(
                "C09",
                "capacity_exceeded",
                format!("{} items pending with capacity {} after {what}", snap.pending, w.cap),
            );
        }
        if snap.pending != w.pending.len() {
            w.out.violate(
                "C09",
                "pending_len_mismatch",
                format!("after {what}: channel holds {} items, reference queue holds {:?}", snap.pending, w.pending),
            );
        }
    })
}

/// One step of actor `a`: either start its next operation or poll its pending async one.
fn actor_step(sh: &ShRef, a: usize) {
    let sender = sh.sender.lock().unwrap().clone();
    let Some(sender) = sender else { return };
    if !sh.storm.lock().unwrap().is_empty() && chance(sh, 1, 3) {
        let waiting = std::mem::take(&mut *sh.storm.lock().unwrap());
        let mut still = Vec::new();
        for op in waiting {
            if let Some(op) = poll_async(sh, a, op) {
                still.push(op);
            }
        }
        w(sh, |w| CS_WATCH.with(|c| c.set(None)));
        *sh.storm.lock().unwrap() = still;
    }
    // take the pending async op (if any) out of the actor so no lock is held while it runs
    let cur = {
        let mut actors = sh.actors.lock().unwrap();
        if actors[a].on_stack {
            return;
        }
        actors[a].on_stack = true;
        actors[a].cur.take()
    };
    w(sh, |w| IN_SENDER_OP.with(|c| c.set(c.get() + 1)));
    let next = match cur {
        // cancellation: the caller drops the future of an async send / flush that is still waiting. Nothing it
        // registered is taken back (watchers stay where they are, in the model too); a cancelled send's item was
        // never accepted, so it must never be delivered
        Some(op) if chance(sh, 1, 14) => {
            w(sh, |w| {
                w.out.fault("async_op_cancelled");
                match &op {
                    AsyncOp::Send { item, .. } => w.log(format!("actor{a} drops its pending async send({item}) (cancelled)")),
                    AsyncOp::Flush { id, .. } => w.log(format!("actor{a} drops its pending async flush#{id} (cancelled)")),
                }
            });
            if panic::catch_unwind(AssertUnwindSafe(move || drop(op))).is_err() {
                op_panicked(sh, "dropping a pending async operation");
            }
            None
        }
        Some(op) => poll_async(sh, a, op),
        None => start_op(sh, a, &sender),
    };
    w(sh, |w| {
        IN_SENDER_OP.with(|c| c.set(c.get() - 1));
        CS_OP.with(|c| c.set(0));
        CS_ITEM.with(|c| c.set(None));
        CS_WATCH.with(|c| c.set(None));
        w.abstract_state();
    });
    let mut actors = sh.actors.lock().unwrap();
    actors[a].cur = next;
    actors[a].on_stack = false;
}

fn poll_async(sh: &ShRef, a: usize, op: AsyncOp) -> Option<AsyncOp> {
    let waker = noop_waker();
    match op {
        AsyncOp::Send {
            item,
            started,
            timeout,
            mut fut,
        } => {
            w(sh, |w| {
                CS_ITEM.with(|c| c.set(Some(item)));
                CS_RESULT.with(|c| c.set(None));
                CS_OP.with(|c| c.set(3));
                w.next_cb += 1;
                CS_WATCH.with(|c| c.set(Some(w.next_cb)));
            });
            let r = panic::catch_unwind(AssertUnwindSafe(|| verif::poll_once(fut.as_mut(), &waker)));
            match r {
                Ok(Poll::Pending) => {
                    w(sh, |w| w.out.probe("async_send_pending"));
                    Some(AsyncOp::Send {
                        item,
                        started,
                        timeout,
                        fut,
                    })
                }
                Ok(Poll::Ready(res)) => {
                    finish_async_send(sh, a, item, started, timeout, res);
                    None
                }
                Err(_) => {
                    op_panicked(sh, "async send");
                    None
                }
            }
        }
        AsyncOp::Flush { id, mut fut } => {
            w(sh, |w| {
                CS_WATCH.with(|c| c.set(Some(id)));
            });
            let r = panic::catch_unwind(AssertUnwindSafe(|| verif::poll_once(fut.as_mut(), &waker)));
            match r {
                Ok(Poll::Pending) => Some(AsyncOp::Flush { id, fut }),
                Ok(Poll::Ready(ok)) => {
                    w(sh, |w| {
                        let seq = w.next_seq();
                        w.log(format!("actor{a} async flush#{id} -> {ok}"));
                        if ok {
                            w.events.push(Ev::FlushDone { seq, id });
                        }
                    });
                    None
                }
                Err(_) => {
                    op_panicked(sh, "async flush");
                    None
                }
            }
        }
    }
}

fn op_panicked(sh: &Sh, what: &str) {
    let msg = crate::core::take_last_panic().unwrap_or_default();
    w(sh, |w| {
        if w.aborted || msg.contains("<injected:") {
            return;
        }
        w.out.violate("C08", "sender_op_panicked", format!("{what} panicked: {msg}"));
    })
}

fn finish_async_send(sh: &Sh, a: usize, item: Item, started: Duration, timeout: Duration, res: Result<(), BatchError<Item>>) {
    let predicted = w(sh, |w| CS_RESULT.with(|c| c.get()));
    match res {
        Ok(()) => {
            record_send_return(sh, item, true);
            w(sh, |w| {
                w.log(format!("actor{a} async send({item}) -> Ok"));
                if !w.torn_down && predicted != Some(true) {
                    w.out.violate(
                        "C09",
                        "send_ok_without_enqueue",
                        format!("async send({item}) returned Ok but the reference queue did not accept it"),
                    );
                }
            });
        }
        Err(e) => {
            let back = e.into_retryable();
            record_send_return(sh, item, false);
            w(sh, |w| {
                let waited = w.now.saturating_sub(started);
                w.log(format!("actor{a} async send({item}) -> Err(back={back:?}) after {waited:?}"));
                if w.torn_down {
                    return;
                }
                if predicted == Some(true) {
                    w.out.violate(
                        "C09",
                        "send_err_but_enqueued",
                        format!("async send({item}) returned Err but the item was enqueued"),
                    );
                }
                if w.open {
                    if back != Some(item) {
                        w.out.violate(
                            "C09",
                            "send_did_not_hand_back",
                            format!("async send({item}) failed on an open channel and handed back {back:?}"),
                        );
                    }
                    if waited + sh.clock_ahead() < timeout {
                        w.out.violate(
                            "C09",
                            "send_gave_up_early",
                            format!("async send({item}) gave up after {waited:?}, before its timeout {timeout:?}"),
                        );
                    }
                    w.out.probe("async_send_timed_out");
                }
            });
        }
    }
    check_snapshot(sh, "async send");
}

fn start_op(sh: &ShRef, a: usize, sender: &Arc<Sender<Chan>>) -> Option<AsyncOp> {
    {
        let mut actors = sh.actors.lock().unwrap();
        if actors[a].ops_left == 0 {
            return None;
        }
        actors[a].ops_left -= 1;
    }
    let focus = w(sh, |w| w.focus);
    // op kinds: 0 send, 1 try_send, 2 async send, 3 when_flushed, 4 async flush, 5 when_empty, 6 metrics
    let weights: [u32; 7] = match focus {
        7 => [6, 2, 2, 5, 4, 1, 1],
        8 => [6, 2, 2, 3, 2, 2, 1],
        9 => [7, 4, 5, 1, 1, 2, 3],
        _ => [8, 3, 3, 2, 2, 1, 1],
    };
    let kind = weighted(sh, &weights);
    start_op_kind(sh, a, sender, kind)
}

fn start_op_kind(sh: &ShRef, a: usize, sender: &Arc<Sender<Chan>>, kind: usize) -> Option<AsyncOp> {
    if !sh.inline {
        let mut actors = sh.actors.lock().unwrap();
        actors[a].ops_left = actors[a].ops_left.saturating_sub(1);
    }
    match kind {
        0 => {
            let item = new_item(sh);
            w(sh, |w| {
                CS_ITEM.with(|c| c.set(Some(item)));
                CS_RESULT.with(|c| c.set(None));
                CS_OP.with(|c| c.set(1));
            });
            let r = panic::catch_unwind(AssertUnwindSafe(|| sender.send(item)));
            if r.is_err() {
                op_panicked(sh, "send");
                return None;
            }
            let accepted = w(sh, |w| {
                let res = CS_RESULT.with(|c| c.get());
                let acc = res == Some(true);
                w.log(format!("actor{a} send({item}) accepted={acc}"));
                // the model learns of a send at the channel's critical section; a send that returns without ever
                // getting there (on a channel the model knows to be open) has dropped its item on the floor
                if res.is_none() && w.open && !w.torn_down && !w.aborted {
                    let d = format!("send({item}) returned without reaching the channel: the item is neither queued nor counted as truncated");
                    w.out.violate("C06", "send_never_reached_the_channel", d.clone());
                    w.out.violate("C09", "send_never_reached_the_channel", d);
                }
                acc
            });
            record_send_return(sh, item, accepted);
            check_snapshot(sh, "send");
            None
        }
        1 => {
            let item = new_item(sh);
            w(sh, |w| {
                CS_ITEM.with(|c| c.set(Some(item)));
                CS_RESULT.with(|c| c.set(None));
                CS_OP.with(|c| c.set(2));
            });
            let r = panic::catch_unwind(AssertUnwindSafe(|| sender.try_send(item)));
            let Ok(r) = r else {
                op_panicked(sh, "try_send");
                return None;
            };
            let ok = r.is_ok();
            let back = r.err().map(|e| e.into_retryable());
            record_send_return(sh, item, ok);
            w(sh, |w| {
                w.log(format!("actor{a} try_send({item}) -> ok={ok} back={back:?}"));
                if w.torn_down {
                    return;
                }
                let predicted = CS_RESULT.with(|c| c.get()) == Some(true);
                if ok != predicted {
                    w.out.violate(
                        "C09",
                        "try_send_result",
                        format!("try_send({item}) returned ok={ok}; reference queue (len {} cap {}) says {predicted}", w.pending.len(), w.cap),
                    );
                }
                if !ok && w.open && back != Some(Some(item)) {
                    w.out.violate(
                        "C09",
                        "try_send_did_not_hand_back",
                        format!("try_send({item}) on a full open channel handed back {back:?}"),
                    );
                }
            });
            check_snapshot(sh, "try_send");
            None
        }
        2 => {
            let item = new_item(sh);
            let timeout = timeout_choice(sh);
            let s = sender.clone();
            let fut: BoxFut<Result<(), BatchError<Item>>> =
                Box::pin(async move { emit_batcher::tokio::send(&*s, item, timeout).await });
            let started = w(sh, |w| {
                w.log(format!("actor{a} async send({item}, timeout={timeout:?}) starts"));
                w.now
            });
            poll_async(
                sh,
                a,
                AsyncOp::Send {
                    item,
                    started,
                    timeout,
                    fut,
                },
            )
        }
        3 => {
            let id = new_cb(sh, "flush");
            let panics = chance(sh, 1, 12);
            w(sh, |w| {
                CS_WATCH.with(|c| c.set(Some(id)));
                let seq = w.next_seq();
                w.events.push(Ev::FlushRequest { seq, id });
                w.log(format!("actor{a} when_flushed#{id} requested (panics={panics})"));
            });
            let cb = make_cb(sh, id, panics);
            let _ = panic::catch_unwind(AssertUnwindSafe(|| sender.when_flushed(cb)));
            let _ = crate::core::take_last_panic();
            check_snapshot(sh, "when_flushed");
            None
        }
        4 if sh.inline && sh.storm.lock().unwrap().is_empty() && chance(sh, 1, 120) => {
            // a crowd of flushers on whatever is pending right now
            let n = 1030 + choose(sh, 200);
            w(sh, |w| {
                w.out.probe("flush_storm");
                w.log(format!("actor{a} starts {n} async flushes at once"));
            });
            let mut waiting = Vec::new();
            for _ in 0..n {
                let id = new_cb(sh, "aflush");
                w(sh, |w| {
                    CS_WATCH.with(|c| c.set(Some(id)));
                    let seq = w.next_seq();
                    w.events.push(Ev::FlushRequest { seq, id });
                    w.cbs.remove(&id);
                });
                let s = sender.clone();
                let fut: BoxFut<bool> = Box::pin(async move { emit_batcher::tokio::flush(&*s, Duration::from_secs(3600)).await });
                if let Some(op) = poll_async(sh, a, AsyncOp::Flush { id, fut }) {
                    waiting.push(op);
                }
            }
            check_snapshot(sh, "flush storm");
            *sh.storm.lock().unwrap() = waiting;
            None
        }
        4 => {
            let id = new_cb(sh, "aflush");
            let timeout = timeout_choice(sh);
            w(sh, |w| {
                CS_WATCH.with(|c| c.set(Some(id)));
                let seq = w.next_seq();
                w.events.push(Ev::FlushRequest { seq, id });
                w.log(format!("actor{a} async flush#{id} (timeout={timeout:?}) requested"));
                // not an observable callback of ours: the future's resolution is what we see
                w.cbs.remove(&id);
            });
            let s = sender.clone();
            let fut: BoxFut<bool> = Box::pin(async move { emit_batcher::tokio::flush(&*s, timeout).await });
            poll_async(sh, a, AsyncOp::Flush { id, fut })
        }
        5 => {
            let id = new_cb(sh, "empty");
            let panics = chance(sh, 1, 12);
            w(sh, |w| {
                CS_WATCH.with(|c| c.set(Some(id)));
                w.log(format!("actor{a} when_empty#{id} requested (panics={panics})"));
            });
            let cb = make_cb(sh, id, panics);
            let _ = panic::catch_unwind(AssertUnwindSafe(|| sender.when_empty(cb)));
            let _ = crate::core::take_last_panic();
            None
        }
        _ => {
            if chance(sh, 1, 3) {
                sample_metrics_reentrant(sh, sender);
            } else {
                sample_metrics(sh, sender, "op");
            }
            None
        }
    }
}

/// A sampler is user code (a metrics reporter may well emit into the very pipeline it samples):
/// while it runs, other senders take their turns. Values are not compared in this mode.
fn sample_metrics_reentrant(sh: &ShRef, sender: &Sender<Chan>) {
    use emit::metric::Source as _;
    w(sh, |w| {
        w.out.probe("metrics_sampler_runs_sender_ops");
        w.log("metrics sampled by a sampler that lets other senders run".into());
    });
    let r = panic::catch_unwind(AssertUnwindSafe(|| {
        sender.metric_source().sample_metrics(emit::metric::sampler::from_fn(|_| {
            interleave(sh, "in_sampler");
        }))
    }));
    if r.is_err() {
        op_panicked(sh, "sample_metrics");
    }
}

fn sample_metrics(sh: &Sh, sender: &Sender<Chan>, why: &str) {
    use emit::metric::Source as _;
    let got: Mutex<BTreeMap<String, u64>> = Mutex::new(BTreeMap::new());
    let r = panic::catch_unwind(AssertUnwindSafe(|| {
        sender
            .metric_source()
            .sample_metrics(emit::metric::sampler::from_fn(|m| {
                let v = m.value().to_string().parse::<u64>().unwrap_or(u64::MAX);
                got.lock().unwrap().insert(m.name().to_string(), v);
            }))
    }));
    if r.is_err() {
        op_panicked(sh, "sample_metrics");
        return;
    }
    let got = got.into_inner().unwrap();
    w(sh, |w| {
        if w.torn_down || w.aborted {
            return;
        }
        let ql = got.get("queue_length").copied();
        let tr = got.get("queue_full_truncated").copied();
        w.log(format!("metrics({why}): queue_length={ql:?} queue_full_truncated={tr:?}"));
        if ql != Some(w.pending.len() as u64) {
            w.out.violate(
                "C09",
                "queue_length_metric",
                format!("queue_length sampled {ql:?}, reference queue holds {}", w.pending.len()),
            );
        }
        if tr != Some(w.truncations) {
            let d = format!("queue_full_truncated sampled {tr:?}, reference counted {} truncations", w.truncations);
            w.out.violate("C09", "truncation_counter", d.clone());
            w.out.violate("C06", "truncation_counter", d);
        }
    })
}

// ---------------------------------------------------------------------------------------------
// Control points: run sender-side work in the middle of receiver-side work

fn interleave(sh: &ShRef, point: &'static str) {
    if !sh.inline {
        // thread mode: real threads are interleaved by the scheduler at this point instead
        if let Some(y) = &sh.yielder {
            y(point);
        }
        return;
    }
    if w(sh, |w| w.aborted || w.sender_dropped) {
        return;
    }
    let n_actors = sh.actors.lock().unwrap().len();
    // geometric number of nested steps, 0 most likely
    let mut budget = 6;
    while budget > 0 {
        let has_work = {
            let actors = sh.actors.lock().unwrap();
            actors.iter().any(|a| !a.on_stack && (a.ops_left > 0 || a.cur.is_some()))
        };
        if !has_work || !chance(sh, 2, 5) {
            break;
        }
        budget -= 1;
        let a = choose(sh, n_actors as u32) as usize;
        let ok = {
            let actors = sh.actors.lock().unwrap();
            !actors[a].on_stack && (actors[a].ops_left > 0 || actors[a].cur.is_some())
        };
        if ok {
            w(sh, |w| {
                w.out.probe(match point {
                    "before_swap" => "sender_op_right_before_swap",
                    "in_on_batch" => "sender_op_inside_processor_call",
                    "in_proc_poll" => "sender_op_while_processor_pending",
                    "in_wait" => "sender_op_during_receiver_wait",
                    "in_watcher" => "sender_op_inside_watcher_callback",
                    "in_sampler" => "sender_op_inside_metrics_sampler",
                    "unannounced_lock" => "sender_op_right_before_an_unannounced_lock",
                    _ => "sender_op_nested",
                });
            });
            // an abort raised by the nested step (a held lock was found) must not unwind through the frames of
            // the code under test that called this seam: they may hold the very guard, and a poisoned mutex makes
            // `Receiver::drop` panic during the unwinding of `exec`, which aborts the process
            let r = panic::catch_unwind(AssertUnwindSafe(|| actor_step(sh, a)));
            if let Err(e) = r {
                if w(sh, |w| w.aborted) {
                    let _ = crate::core::take_last_panic();
                    return;
                }
                panic::resume_unwind(e);
            }
        }
    }
}

// ---------------------------------------------------------------------------------------------
// Receiver seams: processor and wait

struct ProcFut {
    sh: ShRef,
    polls_left: u32,
    deadline: Duration,
    outcome: Option<ProcOutcome>,
    batch_no: u64,
}

impl Future for ProcFut {
    type Output = Result<(), BatchError<Chan>>;
    fn poll(mut self: Pin<&mut Self>, _cx: &mut Context<'_>) -> Poll<Self::Output> {
        let sh = self.sh.clone();
        interleave(&sh, "in_proc_poll");
        let now = w(&sh, |w| w.now);
        if self.polls_left > 0 {
            self.polls_left -= 1;
            return Poll::Pending;
        }
        if now < self.deadline {
            return Poll::Pending;
        }
        let outcome = self.outcome.take().expect("processor future polled after completion");
        let batch_no = self.batch_no;
        attempt_end(&sh, batch_no, &outcome);
        match outcome {
            ProcOutcome::Ok => Poll::Ready(Ok(())),
            ProcOutcome::Fail => Poll::Ready(Err(build_error(&sh, None))),
            ProcOutcome::Retry(rem) => Poll::Ready(Err(build_error(&sh, Some(rem)))),
            ProcOutcome::PanicAsync => panic::panic_any(Injected("processor_future")),
            ProcOutcome::PanicSync => unreachable!(),
        }
    }
}

/// The receiver is calling the processor: record and check the attempt start.
fn attempt_start(sh: &ShRef, arg: &Chan) -> (u64, u32) {
    let (batch_no, attempt) = w(sh, |w| {
        let seq = w.next_seq();
        let (no, attempt) = match w.cur.as_mut() {
            None => {
                w.out.violate(
                    "C06",
                    "unexpected_batch",
                    format!("processor called with {arg:?} although the reference queue handed nothing over"),
                );
                (0, 0)
            }
            Some(cur) => {
                cur.attempts += 1;
                if cur.attempts == 1 {
                    if *arg != cur.first {
                        w.out.violate(
                            "C06",
                            "batch_content",
                            format!("batch #{} delivered {:?}, accepted sequence says {:?}", cur.no, arg, cur.first),
                        );
                    }
                } else {
                    if *arg != cur.expected_next {
                        w.out.violate(
                            "C06",
                            "retry_content",
                            format!(
                                "attempt {} of batch #{} got {:?}; the processor had asked to retry exactly {:?}",
                                cur.attempts, cur.no, arg, cur.expected_next
                            ),
                        );
                    }
                    w.out.probe("retry_attempt");
                }
                if cur.attempts > 64 {
                    w.out.violate(
                        "C08",
                        "unbounded_retries",
                        format!("batch #{} attempted {} times", cur.no, cur.attempts),
                    );
                    w.aborted = true;
                    if w.violations_at_abort.is_none() {
                        w.violations_at_abort = Some(w.out.violations.len());
                    }
                }
                cur.last_retry_pending = false;
                cur.attempt_open = true;
                (cur.no, cur.attempts)
            }
        };
        if attempt == 1 {
            w.delivered_first.extend(arg.iter().copied());
        }
        w.events.push(Ev::AttemptStart {
            seq,
            batch_no: no,
            attempt,
            items: arg.clone(),
        });
        w.log(format!("processor: attempt {attempt} on batch #{no} with {arg:?}"));
        w.abstract_state();
        (no, attempt)
    });
    if w(sh, |w| w.aborted) {
        panic::panic_any(Injected("abort_run"));
    }
    interleave(sh, "in_on_batch");
    (batch_no, attempt)
}

/// Draw the outcome of this attempt from the fault script: (outcome, polls it stays pending, latency).
fn draw_outcome(sh: &ShRef, arg: &Chan) -> (ProcOutcome, u32, Duration) {
    let (budget, focus) = w(sh, |w| (w.fault_budget, w.focus));
    let outcome = if budget == 0 {
        ProcOutcome::Ok
    } else {
        let storm = w(sh, |w| w.retry_storm);
        let weights: [u32; 5] = match focus {
            _ if storm => [2, 0, 12, 0, 0],
            8 => [6, 2, 6, 2, 2],
            7 => [7, 2, 5, 1, 1],
            _ => [10, 1, 4, 1, 1],
        };
        let pick = weighted(sh, &weights);
        match pick {
            0 => ProcOutcome::Ok,
            1 => ProcOutcome::Fail,
            2 => {
                // remainder shape: 0 suffix, 1 whole, 2 arbitrary subsequence, 3 empty, 4 the batch plus items the
                // processor made up, 5 reordered (the processor may hand back whatever it likes: it must come back as is)
                let shape = if storm { choose(sh, 2) } else { choose(sh, 6) };
                let rem: Vec<Item> = match shape {
                    0 => {
                        let k = choose(sh, arg.len() as u32) as usize;
                        arg[k..].to_vec()
                    }
                    1 => arg.clone(),
                    2 => arg.iter().copied().filter(|_| chance(sh, 1, 2)).collect(),
                    3 => Vec::new(),
                    4 => {
                        let mut v = arg.clone();
                        let extra = 1_000_000 + choose(sh, 1000);
                        v.push(extra);
                        v.insert(0, extra + 1000);
                        v
                    }
                    _ => arg.iter().rev().copied().collect(),
                };
                ProcOutcome::Retry(rem)
            }
            3 => ProcOutcome::PanicSync,
            _ => ProcOutcome::PanicAsync,
        }
    };
    if outcome != ProcOutcome::Ok {
        w(sh, |w| {
            w.fault_budget = w.fault_budget.saturating_sub(1);
            w.out.fault(match outcome {
                ProcOutcome::Fail => "processor_permanent_failure",
                ProcOutcome::Retry(ref r) if r.is_empty() => "processor_retry_empty_remainder",
                ProcOutcome::Retry(_) => "processor_retryable_failure",
                ProcOutcome::PanicSync => "processor_panic_sync",
                ProcOutcome::PanicAsync => "processor_panic_in_future",
                ProcOutcome::Ok => unreachable!(),
            });
        });
    }
    let polls_left = if chance(sh, 1, 3) { 1 + choose(sh, 3) } else { 0 };
    let latency = match choose(sh, 8) {
        0..=4 => Duration::ZERO,
        5 => Duration::from_millis(5),
        6 => Duration::from_secs(1),
        _ => Duration::from_secs(40),
    };
    if latency > Duration::ZERO {
        w(sh, |w| w.out.fault("processor_latency"));
    }
    w(sh, |w| {
        if let Some(cur) = w.cur.as_mut() {
            match outcome {
                ProcOutcome::Retry(ref rem) if !rem.is_empty() => {
                    cur.expected_next = rem.clone();
                    cur.last_retry_pending = true;
                }
                _ => {
                    cur.expected_next = Vec::new();
                }
            }
        }
    });
    (outcome, polls_left, latency)
}

/// Build the processor's error through one of the public construction paths of `BatchError`
/// (processors wrap and re-map inner errors: all of them must mean the same to the receiver).
fn build_error(sh: &ShRef, remainder: Option<Chan>) -> BatchError<Chan> {
    match remainder {
        Some(rem) => match choose(sh, 4) {
            0 | 1 => BatchError::retry(TestErr, rem),
            // an inner layer said "not retryable", the processor attaches a remainder
            2 => BatchError::<Chan>::no_retry(TestErr).map_retryable(|_| Some(rem)),
            // an inner layer's remainder is replaced
            _ => BatchError::retry(TestErr, vec![424242]).map_retryable(|r| r.map(|_| rem)),
        },
        None => match choose(sh, 3) {
            0 | 1 => BatchError::no_retry(TestErr),
            // an inner layer asked for a retry, the processor vetoes it
            _ => BatchError::retry(TestErr, vec![424243]).map_retryable(|_| None::<Chan>),
        },
    }
}

fn attempt_end(sh: &ShRef, batch_no: u64, outcome: &ProcOutcome) {
    w(sh, |w| {
        let seq = w.next_seq();
        w.events.push(Ev::AttemptEnd { seq, batch_no });
        w.log(format!("processor: attempt on batch #{batch_no} ends with {outcome:?}"));
        if let Some(cur) = w.cur.as_mut() {
            cur.attempt_open = false;
        }
    });
}

fn on_batch(sh: &ShRef, arg: Chan) -> ProcFut {
    let (batch_no, _attempt) = attempt_start(sh, &arg);
    let (outcome, polls_left, latency) = draw_outcome(sh, &arg);
    let deadline = w(sh, |w| {
        let d = w.now + latency;
        if latency > Duration::ZERO {
            w.deadlines.insert(d);
        }
        d
    });
    if outcome == ProcOutcome::PanicSync {
        attempt_end(sh, batch_no, &outcome);
        panic::panic_any(Injected("processor_sync"));
    }
    ProcFut {
        sh: sh.clone(),
        polls_left,
        deadline,
        outcome: Some(outcome),
        batch_no,
    }
}

struct WaitFut {
    sh: ShRef,
    deadline: Duration,
}

impl Future for WaitFut {
    type Output = ();
    fn poll(self: Pin<&mut Self>, _cx: &mut Context<'_>) -> Poll<()> {
        let sh = self.sh.clone();
        interleave(&sh, "in_wait");
        let now = w(&sh, |w| w.now);
        if now >= self.deadline {
            w(&sh, |w| w.rx_sleep_until = None);
            Poll::Ready(())
        } else {
            w(&sh, |w| w.rx_sleep_until = Some(self.deadline));
            Poll::Pending
        }
    }
}

fn on_wait(sh: &ShRef, d: Duration) -> WaitFut {
    let deadline = w(sh, |w| {
        let retry = w.cur.as_ref().map(|c| c.last_retry_pending).unwrap_or(false);
        w.log(format!("receiver waits {d:?} ({})", if retry { "retry back-off" } else { "idle" }));
        if d > Duration::from_secs(300) {
            w.out.violate("C08", "wait_too_long", format!("receiver wait of {d:?}"));
        }
        if retry {
            w.out.probe("retry_backoff_wait");
            let first_global = w.first_batch_first_wait;
            let cur = w.cur.as_mut().unwrap();
            if let Some(prev) = cur.waits.last() {
                if d < *prev {
                    let (no, prev) = (cur.no, *prev);
                    w.out.violate(
                        "C08",
                        "backoff_decreased",
                        format!("batch #{no}: back-off went from {prev:?} to {d:?}"),
                    );
                }
            } else {
                match first_global {
                    None => w.first_batch_first_wait = Some(d),
                    Some(first) => {
                        if d > first {
                            let no = cur.no;
                            w.out.violate(
                                "C08",
                                "backoff_not_reset",
                                format!("batch #{no}: first back-off {d:?} exceeds the first back-off of an earlier batch {first:?}"),
                            );
                        }
                    }
                }
            }
            w.cur.as_mut().unwrap().waits.push(d);
        }
        let dl = w.now + d;
        w.deadlines.insert(dl);
        dl
    });
    WaitFut { sh: sh.clone(), deadline }
}


fn new_world(cap: usize, focus: u8, fault_budget: u32, retry_storm: bool) -> World {
    World {
                now: Duration::ZERO,
                deadlines: BTreeSet::new(),
                seq: 0,
                trace: Vec::new(),
                events: Vec::new(),
                out: Outcome::default(),
                cap,
                pending: Vec::new(),
                open: true,
                in_batch: false,
                truncations: 0,
                on_take: Vec::new(),
                on_flush: Vec::new(),
                cur: None,
                cur_on_flush: Vec::new(),
                batch_no: 0,
                first_batch_first_wait: None,
        max_exhausted_attempts: None,
                cbs: BTreeMap::new(),
                next_cb: 0,
                next_item: 0,
                torn_down: false,
                sender_dropped: false,
                rx_done: false,
                rx_sleep_until: None,
                fault_budget,
                rx_on_stack: false,
                clock_reading_cost: false,
                clock_readings: 0,
                aborted: false,
                violations_at_abort: None,
                focus,
                retry_storm,
                accepted_order: Vec::new(),
                delivered_first: Vec::new(),
                truncated_items: BTreeSet::new(),
                ops_during_batch: 0,
            }
}

// ---------------------------------------------------------------------------------------------
// The run

impl Engine for ChanInline {
    fn name(&self) -> &'static str {
        "chan-inline"
    }

    fn real_vs_stub(&self) -> Value {
        json!({
            "real": ["emit_batcher::{bounded, Sender::{send,try_send,when_flushed,when_empty,metric_source}, Receiver::exec, retry/back-off/capacity logic}", "emit_batcher::tokio::{send, flush, wait}", "tokio::sync::oneshot"],
            "simulated": ["processor (scripted outcomes per attempt)", "receiver wait + tokio::time::timeout (virtual clock)", "OS scheduling (inline interleaver at lock hooks and processor/wait/watcher seams)"],
            "not_exercised": ["sync.rs blocking entry points (see chan-threads)", "tokio runtime"]
        })
    }

    fn rule(&self) -> &'static str {
        "one run = one seeded interleaving of 1-3 logical senders (send/try_send/async send/when_flushed/async flush/when_empty/metrics) with the real Receiver::exec under a scripted processor; non-trivial = at least one sender operation executed while a batch was in flight, or an overflow truncation, retry, processor failure/panic, timeout or teardown occurred; distinct = distinct hash of the full recorded history"
    }

    fn run(&self, ch: &mut Choices, ctx: &RunCtx) -> Outcome {
        let focus: u8 = match ctx.property {
            "C07" => 7,
            "C08" => 8,
            "C09" => 9,
            _ => 6,
        };
        // configuration knobs
        let cap = match ch.weighted(&[10, 3]) {
            0 => 1 + ch.choose(8) as usize,
            _ => 10_000,
        };
        let n_actors = 1 + ch.choose(3) as usize;
        let fault_budget = match ch.weighted(&[3, 4, 2, 1]) {
            0 => 0,
            1 => 1 + ch.choose(4),
            2 => 5 + ch.choose(8),
            _ => 30,
        };
        let retry_storm = ch.chance(1, if focus == 8 { 5 } else { 12 });
        // (a storm of 45 failures runs several batches out of their retries; one of 200 also tells a bounded number of
        // attempts from an unbounded one: the rule is "at most 64 attempts", and only a batch that can fail more often
        // than that can break it)
        let fault_budget = if retry_storm { *ch.pick(&[45u32, 45, 200]) } else { fault_budget };
        let teardown = ch.chance(1, 12);
        let reading_cost = ch.chance(1, 3);
        let early_drop = ch.chance(1, 6);
        let w_rx = 1 + ch.choose(6);
        let w_actor = 1 + ch.choose(6);
        let w_adv = 1 + ch.choose(3);
        let sticky = ch.choose(4);

        let mut actors = Vec::new();
        for _ in 0..n_actors {
            actors.push(Actor {
                ops_left: 1 + ch.choose(if ctx.thorough { 20 } else { 10 }),
                cur: None,
                on_stack: false,
            });
        }

        // prelude: this thread has used another channel before, one that was already closed (an application has many
        // channels; whatever a channel operation leaves behind in the thread must not leak into the next channel).
        // Done in every run, so that a run does not depend on what earlier runs on this OS thread did
        {
            let (other, other_rx): (Sender<Chan>, Receiver<Chan>) = emit_batcher::bounded(1);
            drop(other_rx);
            other.send(4_000_000);
            let _ = other.try_send(4_000_001);
            other.when_flushed(|| {});
            drop(other);
        }
        let (sender, receiver): (Sender<Chan>, Receiver<Chan>) = emit_batcher::bounded(cap);
        let sh: ShRef = Arc::new(Sh {
            world: Mutex::new({
                let mut world = new_world(cap, focus, fault_budget, retry_storm);
                world.clock_reading_cost = reading_cost;
                world
            }),
            choices: Mutex::new(std::mem::replace(ch, Choices::from_record(&[]))),
            ext_choose: None,
            inline: true,
            yielder: None,
            sender: Mutex::new(Some(Arc::new(sender))),
            actors: Mutex::new(actors),
            clock_ahead_ns: std::sync::atomic::AtomicU64::new(0),
            storm: Mutex::new(Vec::new()),
        });
        w(&sh, |w| {
            w.log(format!(
                "config: capacity={cap} actors={n_actors} fault_budget={fault_budget} retry_storm={retry_storm} teardown={teardown} weights=rx{w_rx}/actor{w_actor}/adv{w_adv} sticky={sticky}"
            ))
        });

        let prev_hooks = verif::install(Some(Arc::new(InlineHooks { sh: sh.clone() })));

        let mut rx: Option<BoxFut<()>> = {
            let sh1 = sh.clone();
            let sh2 = sh.clone();
            Some(Box::pin(receiver.exec(
                move |d| on_wait(&sh1, d),
                move |batch| on_batch(&sh2, batch),
            )))
        };

        let waker = noop_waker();
        let (idle_stretch_at, idle_stretch_len): (u64, u32) = {
            let mut c = sh.choices.lock().unwrap();
            if c.chance(1, 20) {
                (1 + c.choose(40) as u64, 60 + c.choose(140))
            } else {
                (0, 0)
            }
        };
        let mut forced_idle: u32 = 0;
        let max_steps: u64 = if ctx.thorough { 6000 } else { 3000 };
        let mut steps = 0u64;
        let mut steps_after_close = 0u64;
        let mut last: u32 = 0;
        loop {
            steps += 1;
            if w(&sh, |w| w.aborted) {
                break;
            }
            let (sender_alive, torn_down, rx_sleep, now) = w(&sh, |w| (!w.sender_dropped, w.torn_down, w.rx_sleep_until, w.now));
            let rx_alive = rx.is_some();
            let rx_runnable = rx_alive && rx_sleep.map(|d| d <= now).unwrap_or(true);
            let actor_work: Vec<usize> = {
                let actors = sh.actors.lock().unwrap();
                actors
                    .iter()
                    .enumerate()
                    .filter(|(_, a)| a.ops_left > 0 || a.cur.is_some())
                    .map(|(i, _)| i)
                    .collect()
            };
            let have_deadline = w(&sh, |w| {
                let now = w.now;
                w.deadlines.retain(|d| *d > now);
                !w.deadlines.is_empty()
            });
            if steps > max_steps {
                w(&sh, |w| {
                    if w.sender_dropped && !w.torn_down {
                        w.out.violate(
                            "C08",
                            "no_termination_after_close",
                            format!("receiver still running {steps_after_close} controller steps after the sender was dropped"),
                        );
                    }
                    w.log("step cap reached".into());
                });
                break;
            }
            // enabled actions: 0 poll rx, 1 actor step, 2 advance time, 3 drop sender, 4 teardown rx
            let mut acts: Vec<(u32, u32)> = Vec::new();
            if rx_runnable {
                acts.push((0, w_rx));
            }
            if sender_alive && !actor_work.is_empty() {
                acts.push((1, w_actor));
            }
            if have_deadline && (rx_alive || !actor_work.is_empty()) {
                acts.push((2, if rx_runnable || !actor_work.is_empty() { w_adv } else { 50 }));
            }
            if sender_alive {
                if actor_work.is_empty() {
                    acts.push((3, 4));
                } else if early_drop && steps > 5 && steps % 8 == 0 {
                    // dropping the sender with work outstanding is a fault: rare
                    acts.push((3, 1));
                }
            }
            if teardown && rx_alive && !torn_down && steps > 3 {
                acts.push((4, 1));
            }
            acts.retain(|a| a.1 > 0);
            if acts.is_empty() {
                break;
            }
            let act = {
                let mut c = sh.choices.lock().unwrap();
                // stickiness: keep doing what we did last with probability sticky/4
                if sticky > 0 && acts.iter().any(|a| a.0 == last) && c.choose(4) < sticky {
                    last
                } else {
                    let weights: Vec<u32> = acts.iter().map(|a| a.1).collect();
                    acts[c.weighted(&weights)].0
                }
            };
            // an idle stretch: the application goes quiet for a while; the receiver polls an empty channel dozens of
            // times in a row (its idle delay backs off and stays capped) and must still be there afterwards
            if steps == idle_stretch_at {
                forced_idle = idle_stretch_len;
                w(&sh, |w| {
                    w.out.probe("idle_stretch");
                    w.log(format!("idle stretch: the receiver alone for {idle_stretch_len} polls"));
                });
            }
            let act = if forced_idle > 0 && rx_alive && !torn_down {
                if rx_runnable {
                    forced_idle -= 1;
                    0
                } else if have_deadline {
                    2
                } else {
                    forced_idle = 0;
                    act
                }
            } else {
                act
            };
            last = act;
            if !sender_alive {
                steps_after_close += 1;
                if steps_after_close > 2500 && rx_alive && !torn_down {
                    w(&sh, |w| {
                        w.out.violate(
                            "C08",
                            "no_termination_after_close",
                            format!("receiver still running {steps_after_close} controller steps after the sender was dropped"),
                        )
                    });
                    break;
                }
            }
            match act {
                0 => {
                    w(&sh, |w| w.rx_on_stack = true);
                    let fut = rx.as_mut().unwrap();
                    let r = panic::catch_unwind(AssertUnwindSafe(|| verif::poll_once(fut.as_mut(), &waker)));
                    w(&sh, |w| w.rx_on_stack = false);
                    match r {
                        Ok(Poll::Ready(())) => {
                            rx = None;
                            w(&sh, |w| {
                                w.rx_done = true;
                                finish_cur(w);
                                w.log("receiver terminated".into());
                                if !w.sender_dropped && !w.torn_down {
                                    w.out.violate(
                                        "C08",
                                        "receiver_exited_early",
                                        "Receiver::exec returned while the sender is still alive".into(),
                                    );
                                }
                            });
                        }
                        Ok(Poll::Pending) => {}
                        Err(_) => {
                            let msg = crate::core::take_last_panic().unwrap_or_default();
                            rx = None;
                            w(&sh, |w| {
                                w.rx_done = true;
                                if !w.aborted {
                                    w.out.violate(
                                        "C08",
                                        "receiver_panicked",
                                        format!("a panic escaped Receiver::exec: {msg}"),
                                    );
                                }
                            });
                        }
                    }
                }
                1 => {
                    let a = actor_work[choose(&sh, actor_work.len() as u32) as usize];
                    actor_step(&sh, a);
                }
                2 => {
                    w(&sh, |w| {
                        let now = w.now;
                        if let Some(d) = w.deadlines.iter().find(|d| **d > now).copied() {
                            // timers within a few microseconds of each other fire together (a crowd of waiters started
                            // in one go has deadlines a clock reading apart)
                            let d = w.deadlines.iter().filter(|x| **x >= d && **x <= d + Duration::from_micros(10)).max().copied().unwrap_or(d);
                            w.now = d;
                            w.deadlines.retain(|x| *x > d);
                            w.log(format!("clock advances to {d:?}"));
                        }
                    });
                }
                3 => {
                    // cancel whatever async operations are still pending, then drop the sender
                    let pending_ops: Vec<AsyncOp> = {
                        let mut actors = sh.actors.lock().unwrap();
                        actors
                            .iter_mut()
                            .filter_map(|a| {
                                a.ops_left = 0;
                                a.cur.take()
                            })
                            .collect()
                    };
                    if !pending_ops.is_empty() {
                        w(&sh, |w| w.out.fault("async_op_cancelled"));
                    }
                    for op in pending_ops {
                        if let AsyncOp::Send { item, .. } = &op {
                            record_send_return(&sh, *item, false);
                        }
                        drop(op);
                    }
                    // (the crowd of flushers, if any, is cancelled with them: its futures hold the sender too)
                    let crowd = std::mem::take(&mut *sh.storm.lock().unwrap());
                    drop(crowd);
                    if !actor_work.is_empty() {
                        w(&sh, |w| w.out.fault("sender_dropped_early"));
                    }
                    let s = sh.sender.lock().unwrap().take();
                    let pending_before = w(&sh, |w| w.pending.len());
                    if pending_before > 0 {
                        w(&sh, |w| w.out.probe("sender_dropped_with_items_queued"));
                    }
                    drop(s);
                }
                _ => {
                    w(&sh, |w| {
                        let seq = w.next_seq();
                        w.torn_down = true;
                        w.events.push(Ev::Teardown { seq });
                        w.out.fault("receiver_teardown");
                        w.log("receiver torn down (exec future dropped)".into());
                    });
                    rx = None;
                }
            }
        }

        // final metric sample against the model
        if let Some(sender) = sh.sender.lock().unwrap().clone() {
            if !w(&sh, |w| w.aborted) {
                sample_metrics(&sh, &sender, "end");
            }
        }
        // make sure nothing of ours outlives the run
        // (after an aborted run the channel's mutex may be poisoned - the abort unwound through a frame that held
        // it - and the halves' destructors then panic: contain each one)
        {
            let curs: Vec<_> = {
                let mut actors = sh.actors.lock().unwrap();
                actors.iter_mut().map(|a| a.cur.take()).collect()
            };
            for c in curs {
                let _ = panic::catch_unwind(AssertUnwindSafe(move || drop(c)));
            }
            let crowd = std::mem::take(&mut *sh.storm.lock().unwrap());
            let _ = panic::catch_unwind(AssertUnwindSafe(move || drop(crowd)));
        }
        let s = sh.sender.lock().unwrap().take();
        let _ = panic::catch_unwind(AssertUnwindSafe(move || drop(s)));
        let _ = panic::catch_unwind(AssertUnwindSafe(move || drop(rx)));
        let _ = crate::core::take_last_panic();
        verif::install(prev_hooks);

        // give the choice stream back
        std::mem::swap(ch, &mut *sh.choices.lock().unwrap());

        let mut world = sh.world.lock().unwrap_or_else(|e| e.into_inner());
        let wd = &mut *world;
        posthoc_checks(wd);
        if let Some(n) = wd.violations_at_abort {
            wd.out.violations.truncate(n);
        }
        let mut out = std::mem::take(&mut wd.out);
        out.steps = steps;
        out.sim_time_ns = wd.now.as_nanos();
        out.trace_hash = history_hash(wd.trace.iter());
        out.nontrivial = wd.ops_during_batch > 0
            || wd.truncations > 0
            || !out.faults.is_empty()
            || out.probes.contains_key("async_send_timed_out");
        if ctx.want_trace {
            out.trace = std::mem::take(&mut wd.trace);
        }
        out
    }
}

fn posthoc_checks(w: &mut World) {
    if w.aborted {
        return;
    }
    let quiescent = w.rx_done && w.sender_dropped && !w.torn_down;
    let teardown_seq = w.events.iter().find_map(|e| match e {
        Ev::Teardown { seq } => Some(*seq),
        _ => None,
    });

    // --- C06: exactly-once, FIFO, partition (independent of the stepwise model comparison)
    {
        let mut seen = BTreeSet::new();
        for i in &w.delivered_first {
            if !seen.insert(*i) {
                w.out.violate("C06", "duplicate_delivery", format!("item {i} was handed to the processor in two batches"));
            }
        }
        // delivered sequence must be a subsequence of the accepted sequence
        let mut it = w.accepted_order.iter();
        for d in &w.delivered_first {
            if !it.any(|a| a == d) {
                w.out.violate(
                    "C06",
                    "order_or_phantom",
                    format!("item {d} delivered out of acceptance order or never accepted (accepted {:?}, delivered {:?})", w.accepted_order, w.delivered_first),
                );
                break;
            }
        }
        if quiescent {
            for a in &w.accepted_order {
                if !seen.contains(a) && !w.truncated_items.contains(a) {
                    w.out.violate(
                        "C06",
                        "lost_item",
                        format!("accepted item {a} was neither delivered nor cleared by a counted truncation before the receiver terminated"),
                    );
                    break;
                }
            }
        }
        for t in &w.truncated_items {
            if seen.contains(t) {
                w.out.violate("C06", "truncated_yet_delivered", format!("item {t} was cleared by a truncation in the reference queue but delivered"));
            }
        }
    }

    // --- C07: at flush completion nothing sent before the request is queued, in flight or awaiting retry
    {
        let mut send_ret: BTreeMap<Item, u64> = BTreeMap::new();
        let mut first_start: BTreeMap<Item, u64> = BTreeMap::new();
        let mut trunc: BTreeMap<Item, u64> = BTreeMap::new();
        let mut attempts: Vec<(u64, u64, Vec<Item>, u64)> = Vec::new(); // start, end, items, batch
        let mut open_attempt: BTreeMap<u64, usize> = BTreeMap::new();
        let mut req: BTreeMap<u32, u64> = BTreeMap::new();
        let mut done: Vec<(u32, u64)> = Vec::new();
        for e in &w.events {
            match e {
                Ev::SendReturn { seq, item, accepted } => {
                    if *accepted {
                        send_ret.insert(*item, *seq);
                    }
                }
                Ev::Truncate { seq, items } => {
                    for i in items {
                        trunc.insert(*i, *seq);
                    }
                }
                Ev::AttemptStart { seq, batch_no, items, .. } => {
                    for i in items {
                        first_start.entry(*i).or_insert(*seq);
                    }
                    open_attempt.insert(*batch_no, attempts.len());
                    attempts.push((*seq, u64::MAX, items.clone(), *batch_no));
                }
                Ev::AttemptEnd { seq, batch_no } => {
                    if let Some(ix) = open_attempt.remove(batch_no) {
                        attempts[ix].1 = *seq;
                    }
                }
                Ev::FlushRequest { seq, id } => {
                    req.insert(*id, *seq);
                }
                Ev::FlushDone { seq, id } => done.push((*id, *seq)),
                Ev::Teardown { .. } => {}
            }
        }
        for (id, d) in done {
            let Some(r) = req.get(&id).copied() else { continue };
            if let Some(t) = teardown_seq {
                if d >= t {
                    continue; // receiver not alive: no obligation
                }
            }
            w.out.probe("flush_completed");
            for (item, s) in &send_ret {
                if *s >= r {
                    continue;
                }
                let truncated_before = trunc.get(item).map(|t| *t < d).unwrap_or(false);
                if truncated_before {
                    continue;
                }
                let started = first_start.get(item).copied();
                let bad = match started {
                    None => Some("still queued (never handed to the processor)".to_string()),
                    Some(fs) if fs > d => Some("still queued (first handed to the processor later)".to_string()),
                    Some(_) => attempts
                        .iter()
                        .find(|(st, en, items, _)| items.contains(item) && (*st > d || (*st < d && *en > d)))
                        .map(|(st, en, _, b)| {
                            if *st > d {
                                format!("retried later in batch #{b} (attempt starting at seq {st})")
                            } else {
                                format!("in flight in batch #{b} (attempt {st}..{en})")
                            }
                        }),
                };
                if let Some(why) = bad {
                    w.out.violate(
                        "C07",
                        "flush_before_processed",
                        format!("flush #{id} (requested at seq {r}) reported completion at seq {d} while item {item} (sent at seq {s}) was {why}"),
                    );
                }
            }
        }
    }

    // --- C08: callbacks exactly once by quiescence
    if quiescent {
        let missing: Vec<String> = w
            .cbs
            .iter()
            .filter(|(_, c)| c.fired == 0 && !c.registered_after_teardown)
            .map(|(id, c)| format!("{}#{}", c.kind, id))
            .collect();
        if !missing.is_empty() {
            w.out.violate(
                "C08",
                "callback_never_fired",
                format!("receiver terminated but callbacks {missing:?} never ran"),
            );
        }
        if !w.pending.is_empty() {
            w.out.violate(
                "C08",
                "terminated_with_items_queued",
                format!("receiver terminated while the reference queue still holds {:?}", w.pending),
            );
        }
    }
}

#[path = "chan_threads.rs"]
pub mod threads;
