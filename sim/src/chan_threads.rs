//! `chan` engine, thread mode: the real `emit_batcher::sync` entry points (`spawn`, `blocking_send`,
//! `blocking_flush`, `Trigger`, `block_on`) on real OS threads under the baton-passing scheduler,
//! with the same reference queue and history checks as inline mode (model steps are applied when a
//! thread resumes from the `before_lock` yield of a site, i.e. at the instant its critical section
//! executes).

use std::{cell::Cell, sync::Arc, time::Duration};

use emit_batcher::verif::Hooks;

use super::*;
use crate::simthread::{self, Sched, SchedRef, ThreadHooks};

pub struct ChanThreads;

thread_local! {
    /// the virtual instant by which the blocking call this thread is in must stop waiting
    static DEADLINE: Cell<Option<Duration>> = const { Cell::new(None) };
    /// the scheduling-delay credit of this thread when that call started
    static CREDIT0: Cell<Duration> = const { Cell::new(Duration::ZERO) };
}

struct ModelHooks {
    inner: Arc<ThreadHooks>,
    sh: ShRef,
}

impl ModelHooks {
    fn sync_now(&self) {
        let now = self.inner.sched.now();
        w(&self.sh, |w| w.now = now);
    }
}

impl Hooks for ModelHooks {
    fn before_lock(&self, site: &'static str) {
        if site == "exec_swap" {
            // the previous batch (if any) is finished as far as the receiver is concerned
        }
        self.inner.before_lock(site);
        if self.inner.sched.aborted() {
            return;
        }
        self.sync_now();
        match site {
            "exec_swap" => model_swap(&self.sh),
            "send" => model_send(&self.sh),
            "try_send" => model_try_send(&self.sh),
            "when_empty" => model_when_empty(&self.sh),
            "when_flushed" => model_when_flushed(&self.sh),
            "sender_drop" => w(&self.sh, |w| {
                w.open = false;
                w.sender_dropped = true;
                w.log("sender dropped".into());
            }),
            "receiver_drop" => w(&self.sh, |w| w.open = false),
            _ => {}
        }
    }

    fn lock_contended(&self, site: &'static str) {
        w(&self.sh, |w| w.aborted = true);
        self.inner.lock_contended(site)
    }

    fn now(&self) -> Duration {
        let t = self.inner.now();
        let ahead = t.saturating_sub(self.inner.sched.now());
        self.sh.clock_ahead_ns.store(ahead.as_nanos() as u64, std::sync::atomic::Ordering::Relaxed);
        t
    }

    fn timer(&self, deadline: Duration, waker: &std::task::Waker) {
        self.inner.timer(deadline, waker)
    }

    fn sleep(&self, delay: Duration) {
        if std::thread::current().name() == Some("receiver") {
            self.sync_now();
            let _ = on_wait(&self.sh, delay);
        }
        self.inner.sleep(delay)
    }

    fn spawn_thread(&self, name: Option<String>, f: Box<dyn FnOnce() + Send + 'static>) -> std::io::Result<std::thread::JoinHandle<()>> {
        self.inner.spawn_thread(name, f)
    }

    fn condvar_wait(&self, cv: usize, timeout: Option<Duration>) -> bool {
        if let (Some(dl), Some(t)) = (DEADLINE.with(|d| d.get()), timeout) {
            let now = self.inner.sched.now();
            // a runnable thread may legally be slow: time that passed while this thread was runnable
            // but not running is not the call's fault
            let slack = self.inner.sched.my_credit().saturating_sub(CREDIT0.with(|c| c.get()));
            let dl = dl.saturating_add(slack);
            if now.saturating_add(t) > dl.saturating_add(Duration::from_nanos(1)) {
                self.inner.sched.violate(
                    "C08",
                    "waits_past_timeout",
                    format!(
                        "a blocking call that must return by {dl:?} starts a wait of {t:?} at {now:?} (it would sleep until {:?})",
                        now.saturating_add(t)
                    ),
                );
                if CS_OP.with(|c| c.get()) == 3 {
                    // "or hand it back to the caller when the timeout expires" is C09's clause
                    self.inner.sched.violate(
                        "C09",
                        "send_waits_past_timeout",
                        format!("a blocking send that must hand its item back by {dl:?} starts a wait of {t:?} at {now:?}"),
                    );
                }
            }
        }
        self.inner.condvar_wait(cv, timeout)
    }

    fn condvar_notify_all(&self, cv: usize) {
        self.inner.condvar_notify_all(cv)
    }
}

fn blocking_op(sh: &ShRef, sched: &SchedRef, a: usize, sender: &Arc<Sender<Chan>>, kind: usize) {
    let now = sched.now();
    w(sh, |w| w.now = now);
    match kind {
        2 => {
            let item = new_item(sh);
            let timeout = timeout_choice(sh);
            CS_ITEM.with(|c| c.set(Some(item)));
            CS_RESULT.with(|c| c.set(None));
            CS_OP.with(|c| c.set(3));
            CS_WATCH.with(|c| c.set(Some(0)));
            w(sh, |w| w.log(format!("actor{a} blocking_send({item}, timeout={timeout:?}) starts")));
            DEADLINE.with(|d| d.set(Some(now.saturating_add(timeout))));
            CREDIT0.with(|c| c.set(sched.my_credit()));
            let r = panic::catch_unwind(AssertUnwindSafe(|| emit_batcher::sync::blocking_send(&**sender, item, timeout)));
            DEADLINE.with(|d| d.set(None));
            let end = sched.now();
            w(sh, |w| w.now = end);
            match r {
                Ok(res) => finish_async_send(sh, a, item, now, timeout, res),
                Err(_) => op_panicked(sh, "blocking_send"),
            }
        }
        _ => {
            let id = new_cb(sh, "bflush");
            let timeout = timeout_choice(sh);
            CS_WATCH.with(|c| c.set(Some(id)));
            w(sh, |w| {
                let seq = w.next_seq();
                w.events.push(Ev::FlushRequest { seq, id });
                w.log(format!("actor{a} blocking_flush#{id} (timeout={timeout:?}) starts"));
                w.cbs.remove(&id);
            });
            DEADLINE.with(|d| d.set(Some(now.saturating_add(timeout))));
            CREDIT0.with(|c| c.set(sched.my_credit()));
            let r = panic::catch_unwind(AssertUnwindSafe(|| emit_batcher::sync::blocking_flush(&**sender, timeout)));
            DEADLINE.with(|d| d.set(None));
            let end = sched.now();
            match r {
                Ok(ok) => w(sh, |w| {
                    w.now = end;
                    let seq = w.next_seq();
                    let waited = end.saturating_sub(now);
                    w.log(format!("actor{a} blocking_flush#{id} -> {ok} after {waited:?}"));
                    if ok {
                        w.events.push(Ev::FlushDone { seq, id });
                        w.out.probe("blocking_flush_true");
                    } else {
                        w.out.probe("blocking_flush_timed_out");
                        if waited + sh.clock_ahead() < timeout && !w.torn_down {
                            w.out.violate(
                                "C08",
                                "flush_gave_up_early",
                                format!("blocking_flush#{id} returned false after {waited:?}, before its timeout {timeout:?}"),
                            );
                        }
                    }
                }),
                Err(_) => op_panicked(sh, "blocking_flush"),
            }
        }
    }
    CS_ITEM.with(|c| c.set(None));
    CS_OP.with(|c| c.set(0));
    CS_WATCH.with(|c| c.set(None));
}

impl Engine for ChanThreads {
    fn name(&self) -> &'static str {
        "chan-threads"
    }

    fn real_vs_stub(&self) -> Value {
        json!({
            "real": ["emit_batcher lib.rs (as chan-inline)", "emit_batcher::sync::{spawn, blocking_send, blocking_flush, Trigger wait loop with remaining-time accounting, block_on}", "std::sync::Mutex (channel state)", "real OS threads, real unwinding"],
            "simulated": ["which thread runs next (baton passing at lock hooks and blocking primitives)", "Condvar::wait_timeout / notify_all, thread::sleep, Instant, thread start (virtual clock, spurious wake-ups, early timers)", "processor (scripted outcomes and virtual latency)"],
            "not_exercised": ["tokio runtime entry points inside a runtime (see the calling-context probes)"]
        })
    }

    fn rule(&self) -> &'static str {
        "one run = 1-3 sender threads (send / try_send / blocking_send / blocking_flush / when_flushed / when_empty / metrics, finite timeouts) and the real sync::spawn receiver thread under a seeded baton-passing schedule with virtual time, spurious condvar wake-ups and early timers; non-trivial = an operation ran while a batch was in flight, or a truncation, fault, timeout or retry occurred; distinct = distinct history hash"
    }

    fn shard_over_processes(&self) -> bool {
        true
    }

    fn run(&self, ch: &mut Choices, ctx: &RunCtx) -> Outcome {
        let focus: u8 = match ctx.property {
            "C07" => 7,
            "C08" => 8,
            "C09" => 9,
            _ => 6,
        };
        let cap = match ch.weighted(&[10, 3]) {
            0 => 1 + ch.choose(8) as usize,
            _ => 10_000,
        };
        let n_actors = 1 + ch.choose(3) as usize;
        let fault_budget = match ch.weighted(&[3, 4, 2]) {
            0 => 0,
            1 => 1 + ch.choose(4),
            _ => 5 + ch.choose(8),
        };
        let retry_storm = ch.chance(1, 12);
        let fault_budget = if retry_storm { 30 } else { fault_budget };
        let mut actors = Vec::new();
        for _ in 0..n_actors {
            actors.push(Actor {
                ops_left: 1 + ch.choose(if ctx.thorough { 12 } else { 7 }),
                cur: None,
                on_stack: false,
            });
        }
        let sched = Sched::new(std::mem::replace(ch, Choices::from_record(&[])), ctx.want_trace, 60_000);
        // running code takes time: in half of the runs consecutive clock readings differ (by a nanosecond)
        let reading_cost = sched.chance(1, 2);
        sched.lock().clock_reading_cost_ns = if reading_cost { 1 } else { 0 };
        let (sender, receiver): (Sender<Chan>, Receiver<Chan>) = emit_batcher::bounded(cap);
        let sh: ShRef = {
            let s1 = sched.clone();
            let s2 = sched.clone();
            Arc::new(Sh {
                world: Mutex::new(new_world(cap, focus, fault_budget, retry_storm)),
                choices: Mutex::new(Choices::from_record(&[])),
                ext_choose: Some(Arc::new(move |n| s1.choose(n))),
                inline: false,
                yielder: Some(Arc::new(move |why| s2.yield_point(why))),
                sender: Mutex::new(Some(Arc::new(sender))),
                actors: Mutex::new(actors),
                clock_ahead_ns: std::sync::atomic::AtomicU64::new(0),
                storm: Mutex::new(Vec::new()),
            })
        };
        w(&sh, |w| {
            w.log(format!(
                "config: thread mode capacity={cap} actors={n_actors} fault_budget={fault_budget} retry_storm={retry_storm}"
            ))
        });
        {
            let sh2 = sh.clone();
            *sched.hook_wrap.lock().unwrap() = Some(Arc::new(move |inner: Arc<ThreadHooks>| -> Arc<dyn Hooks> {
                Arc::new(ModelHooks { inner, sh: sh2.clone() })
            }));
        }
        let prev = simthread::enter(&sched);

        // the real receiver thread
        let rx_handle = {
            let sh2 = sh.clone();
            let sc = sched.clone();
            emit_batcher::sync::spawn("receiver", receiver, move |batch: Chan| {
                let now = sc.now();
                w(&sh2, |w| w.now = now);
                let (no, _) = attempt_start(&sh2, &batch);
                let (outcome, polls, latency) = draw_outcome(&sh2, &batch);
                for _ in 0..polls {
                    sc.yield_point("processor_busy");
                }
                if latency > Duration::ZERO {
                    sc.sleep(latency);
                }
                let now = sc.now();
                w(&sh2, |w| w.now = now);
                attempt_end(&sh2, no, &outcome);
                match outcome {
                    ProcOutcome::Ok => Ok(()),
                    ProcOutcome::Fail => Err(build_error(&sh2, None)),
                    ProcOutcome::Retry(rem) => Err(build_error(&sh2, Some(rem))),
                    ProcOutcome::PanicSync | ProcOutcome::PanicAsync => panic::panic_any(Injected("processor")),
                }
            })
            .expect("spawn receiver")
        };
        let rx_tid = sched.tid_by_name("receiver").expect("receiver thread registered");

        // sender threads
        let mut tids = Vec::new();
        let mut handles = vec![rx_handle];
        for a in 0..n_actors {
            let sh2 = sh.clone();
            let sc = sched.clone();
            let (tid, h) = sched
                .spawn(
                    format!("sender{a}"),
                    Box::new(move || loop {
                        let sender = sh2.sender.lock().unwrap().clone();
                        let Some(sender) = sender else { break };
                        let left = sh2.actors.lock().unwrap()[a].ops_left;
                        if left == 0 || w(&sh2, |w| w.aborted) {
                            break;
                        }
                        let now = sc.now();
                        w(&sh2, |w| w.now = now);
                        IN_SENDER_OP.with(|c| c.set(1));
                        // 2 = blocking send, 4 = blocking flush, everything else as in inline mode
                        let weights: [u32; 7] = match w(&sh2, |w| w.focus) {
                            7 => [5, 1, 2, 3, 6, 1, 1],
                            8 => [5, 1, 4, 2, 5, 1, 1],
                            9 => [6, 3, 6, 1, 2, 1, 2],
                            _ => [7, 2, 4, 2, 3, 1, 1],
                        };
                        let kind = weighted(&sh2, &weights);
                        if kind == 2 || kind == 4 {
                            sh2.actors.lock().unwrap()[a].ops_left -= 1;
                            blocking_op(&sh2, &sc, a, &sender, kind);
                        } else {
                            if kind == 0 {
                                sc.set_nonblocking(Some("Sender::send"));
                            }
                            let _ = start_op_kind(&sh2, a, &sender, kind);
                            CS_OP.with(|c| c.set(0));
                            sc.set_nonblocking(None);
                        }
                        IN_SENDER_OP.with(|c| c.set(0));
                        drop(sender);
                        sc.yield_point("between_ops");
                    }),
                )
                .expect("spawn sender");
            tids.push(tid);
            handles.push(h);
        }

        let mut aborted = false;
        for t in &tids {
            if sched.join(*t).is_err() {
                aborted = true;
                break;
            }
        }
        if !aborted {
            // all senders done: drop the sender, the receiver must drain, fire callbacks and terminate
            let pending_before = w(&sh, |w| w.pending.len());
            if pending_before > 0 {
                w(&sh, |w| w.out.probe("sender_dropped_with_items_queued"));
            }
            let s = sh.sender.lock().unwrap().take();
            let r = panic::catch_unwind(AssertUnwindSafe(move || drop(s)));
            if r.is_err() {
                aborted = true;
            } else if sched.join(rx_tid).is_err() {
                aborted = true;
            } else {
                let now = sched.now();
                w(&sh, |w| {
                    w.now = now;
                    w.rx_done = true;
                    finish_cur(w);
                    w.log("receiver thread terminated".into());
                });
            }
        }
        simthread::leave(prev);

        // collect
        let (why, sched_violations, probes, steps, switches, trace, now) = {
            let mut st = sched.lock();
            (
                st.aborted.clone(),
                std::mem::take(&mut st.violations),
                std::mem::take(&mut st.probes),
                st.steps,
                st.switches,
                std::mem::take(&mut st.trace),
                st.now,
            )
        };
        std::mem::swap(ch, &mut sched.lock().choices);
        if !aborted {
            for h in handles {
                let _ = h.join();
            }
        } else {
            // leak whatever is still parked
            std::mem::forget(handles);
        }
        let mut world = sh.world.lock().unwrap_or_else(|e| e.into_inner());
        let wd = &mut *world;
        wd.now = now;
        if let Some(why) = &why {
            wd.aborted = true;
            if why.starts_with("deadlock") {
                wd.out.violate("C08", "deadlock", why.clone());
            } else if why.starts_with("step cap") {
                wd.out.violate("C08", "no_progress", format!("the run did not finish within {steps} scheduler steps"));
            }
        }
        posthoc_checks(wd);
        let mut out = std::mem::take(&mut wd.out);
        for (p, r, d) in sched_violations {
            out.violate(p, r, d);
        }
        for (k, v) in probes {
            *out.probes.entry(k).or_insert(0) += v;
        }
        out.probes.insert("thread_switches", switches);
        out.steps = steps;
        out.sim_time_ns = now.as_nanos();
        let mut full: Vec<String> = std::mem::take(&mut wd.trace);
        full.extend(trace);
        out.trace_hash = history_hash(full.iter());
        out.nontrivial = wd.ops_during_batch > 0
            || wd.truncations > 0
            || !out.faults.is_empty()
            || out.probes.contains_key("async_send_timed_out")
            || out.probes.contains_key("blocking_flush_timed_out");
        if ctx.want_trace {
            out.trace = full;
        }
        out
    }
}
