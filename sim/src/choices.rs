//! The choice stream. Every decision of a run (plan generation, scheduling, fault placement)
//! is one `choose(n)` call. In generation mode the values come from the seeded PRNG and are
//! recorded; in replay mode they come from the recorded list (missing entries read as 0, the
//! "simplest" alternative by construction). A run is therefore a pure function of the list.

use crate::rng::Rng;

pub struct Choices {
    rng: Option<Rng>,
    replay: Vec<u32>,
    pos: usize,
    pub record: Vec<u32>,
    /// Hard cap on the number of choices in one run; beyond it every choice is 0.
    pub cap: usize,
    pub exhausted: bool,
}

impl Choices {
    pub fn from_seed(seed: u64) -> Self {
        Choices {
            rng: Some(Rng::new(seed)),
            replay: Vec::new(),
            pos: 0,
            record: Vec::new(),
            cap: 200_000,
            exhausted: false,
        }
    }

    pub fn from_record(rec: &[u32]) -> Self {
        Choices {
            rng: None,
            replay: rec.to_vec(),
            pos: 0,
            record: Vec::new(),
            cap: 200_000,
            exhausted: false,
        }
    }

    /// A value in `0..n`. `n == 0` is treated as 1. 0 must be the simplest alternative.
    pub fn choose(&mut self, n: u32) -> u32 {
        let n = n.max(1);
        if self.record.len() >= self.cap {
            self.exhausted = true;
            return 0;
        }
        let v = match self.rng {
            Some(ref mut rng) => rng.below(n),
            None => {
                let v = self.replay.get(self.pos).copied().unwrap_or(0) % n;
                self.pos += 1;
                v
            }
        };
        self.record.push(v);
        v
    }

    /// True with probability `num/den`. `false` is the simple alternative.
    pub fn chance(&mut self, num: u32, den: u32) -> bool {
        debug_assert!(num <= den);
        // map so that recorded 0 means false
        let v = self.choose(den);
        v >= den - num
    }

    /// Value in `lo..=hi`, `lo` simplest.
    pub fn range(&mut self, lo: u32, hi: u32) -> u32 {
        lo + self.choose(hi - lo + 1)
    }

    /// Pick an index by weight; index 0 should be the simplest alternative.
    pub fn weighted(&mut self, weights: &[u32]) -> usize {
        let total: u32 = weights.iter().sum();
        let mut v = self.choose(total.max(1));
        for (i, w) in weights.iter().enumerate() {
            if v < *w {
                return i;
            }
            v -= *w;
        }
        0
    }

    pub fn pick<'a, T>(&mut self, items: &'a [T]) -> &'a T {
        &items[self.choose(items.len() as u32) as usize]
    }
}
