//! Shared run infrastructure: outcomes, the batch runner, minimisation, replay files,
//! known findings and evidence.

use std::{
    cell::RefCell,
    collections::{BTreeMap, BTreeSet},
    panic::{self, AssertUnwindSafe},
    path::{Path, PathBuf},
    sync::{
        atomic::{AtomicBool, AtomicU64, Ordering},
        Mutex, Once,
    },
    time::Instant,
};

use serde_json::{json, Value};

use crate::{
    choices::Choices,
    rng::{mix, Fnv},
};

#[derive(Clone, Debug, PartialEq, Eq)]
pub struct Violation {
    pub property: &'static str,
    pub rule: &'static str,
    pub detail: String,
}

#[derive(Default)]
pub struct Outcome {
    pub violations: Vec<Violation>,
    /// Counters: fault kinds that actually fired, probes that were hit.
    pub faults: BTreeMap<&'static str, u64>,
    pub probes: BTreeMap<&'static str, u64>,
    /// Hash of the recorded history; equal hashes = same observable execution.
    pub trace_hash: u64,
    /// Abstract states visited (hashes).
    pub states: BTreeSet<u64>,
    pub nontrivial: bool,
    pub sim_time_ns: u128,
    pub steps: u64,
    /// Executions performed inside this run (0 = 1); engines that enumerate faults per history set it.
    pub evals: u64,
    /// Distinct non-trivial cases inside this run beyond the run itself (counted, conservatively).
    pub distinct_extra: u64,
    /// Human-readable history; only filled when asked for.
    pub trace: Vec<String>,
}

impl Outcome {
    pub fn violate(&mut self, property: &'static str, rule: &'static str, detail: String) {
        // keep the first occurrence of each (property, rule)
        if !self
            .violations
            .iter()
            .any(|v| v.property == property && v.rule == rule)
        {
            self.violations.push(Violation {
                property,
                rule,
                detail,
            });
        }
    }
    pub fn probe(&mut self, name: &'static str) {
        *self.probes.entry(name).or_insert(0) += 1;
    }
    pub fn fault(&mut self, name: &'static str) {
        *self.faults.entry(name).or_insert(0) += 1;
    }
}

pub struct RunCtx {
    pub property: &'static str,
    pub thorough: bool,
    pub want_trace: bool,
}

pub trait Engine: Sync {
    fn name(&self) -> &'static str;
    /// What ran real and what was a stub (for the evidence file).
    fn real_vs_stub(&self) -> Value;
    fn rule(&self) -> &'static str;
    fn run(&self, ch: &mut Choices, ctx: &RunCtx) -> Outcome;
    /// Engines that create OS threads per run scale badly inside one process (the kernel
    /// serialises thread creation per address space): shard their batches over processes.
    fn shard_over_processes(&self) -> bool {
        false
    }
    /// How many re-executions the minimiser may spend on one violation of this engine. Engines whose runs take real
    /// time (probes on real threads that wait out real timeouts when something is broken) get a handful.
    fn minimise_budget(&self) -> usize {
        3000
    }
}

// ---------------------------------------------------------------------------------------------
// Panic plumbing

thread_local! {
    static LAST_PANIC: RefCell<Option<String>> = const { RefCell::new(None) };
}

static HOOK: Once = Once::new();

/// Payload used for panics the simulator injects on purpose.
pub struct Injected(pub &'static str);

pub fn install_panic_hook() {
    HOOK.call_once(|| {
        let verbose = std::env::var_os("VSIM_PANIC_VERBOSE").is_some();
        let default = panic::take_hook();
        panic::set_hook(Box::new(move |info| {
            let loc = info
                .location()
                .map(|l| format!("{}:{}", l.file(), l.line()))
                .unwrap_or_default();
            let msg = if let Some(s) = info.payload().downcast_ref::<&str>() {
                s.to_string()
            } else if let Some(s) = info.payload().downcast_ref::<String>() {
                s.clone()
            } else if let Some(i) = info.payload().downcast_ref::<Injected>() {
                format!("<injected:{}>", i.0)
            } else {
                "<non-string payload>".to_string()
            };
            let _ = LAST_PANIC.try_with(|p| *p.borrow_mut() = Some(format!("{msg} @ {loc}")));
            if verbose {
                default(info);
            }
        }));
    });
}

pub fn take_last_panic() -> Option<String> {
    LAST_PANIC.with(|p| p.borrow_mut().take())
}

/// Run one execution of `engine` from `ch`; a panic escaping the engine is turned into either a
/// violation (panic raised inside /repo code) or a harness error.
pub fn run_once(engine: &dyn Engine, ch: &mut Choices, ctx: &RunCtx) -> Result<Outcome, String> {
    let _ = take_last_panic();
    match panic::catch_unwind(AssertUnwindSafe(|| engine.run(ch, ctx))) {
        Ok(o) => Ok(o),
        Err(_) => {
            let msg = take_last_panic().unwrap_or_else(|| "<unknown panic>".into());
            if msg.contains("/repo/") && !msg.contains("/verif/") {
                let mut o = Outcome::default();
                o.violate(ctx.property, "panic_escaped", msg);
                o.nontrivial = true;
                Ok(o)
            } else {
                Err(msg)
            }
        }
    }
}

// ---------------------------------------------------------------------------------------------
// Known findings

#[derive(Clone, Debug)]
pub struct KnownFinding {
    pub property: String,
    pub rule: String,
    pub trigger: String,
    pub description: String,
}

pub fn load_known_findings(path: &Path) -> Vec<KnownFinding> {
    let Ok(text) = std::fs::read_to_string(path) else {
        return Vec::new();
    };
    let v: Value = serde_json::from_str(&text).expect("known_findings.json must be valid JSON");
    let mut out = Vec::new();
    for e in v["known"].as_array().cloned().unwrap_or_default() {
        out.push(KnownFinding {
            property: e["property"].as_str().unwrap_or("").to_string(),
            rule: e["rule"].as_str().unwrap_or("").to_string(),
            trigger: e["trigger"].as_str().unwrap_or("").to_string(),
            description: e["description"].as_str().unwrap_or("").to_string(),
        });
    }
    out
}

fn known_match<'a>(known: &'a [KnownFinding], v: &Violation) -> Option<&'a KnownFinding> {
    known.iter().find(|k| {
        k.property == v.property && k.rule == v.rule && (k.trigger.is_empty() || v.detail.contains(&k.trigger))
    })
}

pub fn intern(s: &str) -> &'static str {
    use std::collections::BTreeSet;
    static TABLE: Mutex<BTreeSet<&'static str>> = Mutex::new(BTreeSet::new());
    let mut t = TABLE.lock().unwrap();
    if let Some(x) = t.get(s) {
        return x;
    }
    let leaked: &'static str = Box::leak(s.to_string().into_boxed_str());
    t.insert(leaked);
    leaked
}

impl Aggregate {
    pub fn to_json(&self) -> Value {
        json!({
            "evaluations": self.evaluations,
            "nontrivial": self.nontrivial,
            "distinct_nontrivial": self.distinct_nontrivial.iter().collect::<Vec<_>>(),
            "distinct_extra": self.distinct_extra,
            "distinct_traces": self.distinct_traces.iter().collect::<Vec<_>>(),
            "states": self.states.iter().collect::<Vec<_>>(),
            "faults": self.faults,
            "probes": self.probes,
            "sim_time_ns": self.sim_time_ns.to_string(),
            "steps": self.steps,
            "other": self.other_property_violations,
            "failures": self.failures.iter().map(|(i, v, r)| json!([i, v.property, v.rule, v.detail, r])).collect::<Vec<_>>(),
            "harness_errors": self.harness_errors.iter().map(|(i, m)| json!([i, m])).collect::<Vec<_>>(),
            "samples": self.samples,
            "stopped_early": self.stopped_early,
        })
    }

    pub fn from_json(v: &Value) -> Aggregate {
        let set = |k: &str| -> BTreeSet<u64> {
            v[k].as_array().map(|a| a.iter().filter_map(|x| x.as_u64()).collect()).unwrap_or_default()
        };
        let map = |k: &str| -> BTreeMap<&'static str, u64> {
            v[k].as_object()
                .map(|o| o.iter().map(|(k, v)| (intern(k), v.as_u64().unwrap_or(0))).collect())
                .unwrap_or_default()
        };
        let mut a = Aggregate::default();
        a.evaluations = v["evaluations"].as_u64().unwrap_or(0);
        a.nontrivial = v["nontrivial"].as_u64().unwrap_or(0);
        a.distinct_nontrivial = set("distinct_nontrivial");
        a.distinct_extra = v["distinct_extra"].as_u64().unwrap_or(0);
        a.distinct_traces = set("distinct_traces");
        a.states = set("states");
        a.faults = map("faults");
        a.probes = map("probes");
        a.sim_time_ns = v["sim_time_ns"].as_str().and_then(|s| s.parse().ok()).unwrap_or(0);
        a.steps = v["steps"].as_u64().unwrap_or(0);
        a.other_property_violations = v["other"]
            .as_object()
            .map(|o| o.iter().map(|(k, v)| (k.clone(), v.as_u64().unwrap_or(0))).collect())
            .unwrap_or_default();
        for f in v["failures"].as_array().cloned().unwrap_or_default() {
            a.failures.push((
                f[0].as_u64().unwrap_or(0),
                Violation {
                    property: intern(f[1].as_str().unwrap_or("")),
                    rule: intern(f[2].as_str().unwrap_or("")),
                    detail: f[3].as_str().unwrap_or("").to_string(),
                },
                f[4].as_array().map(|r| r.iter().map(|x| x.as_u64().unwrap_or(0) as u32).collect()).unwrap_or_default(),
            ));
        }
        for h in v["harness_errors"].as_array().cloned().unwrap_or_default() {
            a.harness_errors.push((h[0].as_u64().unwrap_or(0), h[1].as_str().unwrap_or("").to_string()));
        }
        a.samples = v["samples"].as_array().cloned().unwrap_or_default();
        a.stopped_early = v["stopped_early"].as_bool().unwrap_or(false);
        a
    }
}

// ---------------------------------------------------------------------------------------------
// Batch runner

pub struct BatchCfg {
    pub property: &'static str,
    pub thorough: bool,
    pub seed: u64,
    pub runs: u64,
    pub threads: usize,
    pub max_wall_s: f64,
    pub verif_dir: PathBuf,
    /// Label mixed into run seeds, so several engines of one check draw different streams.
    pub label: String,
    /// Only run indices `i` with `i % shard.1 == shard.0`.
    pub shard: (u64, u64),
}

#[derive(Default)]
pub struct Aggregate {
    pub evaluations: u64,
    pub nontrivial: u64,
    pub distinct_nontrivial: BTreeSet<u64>,
    pub distinct_extra: u64,
    pub distinct_traces: BTreeSet<u64>,
    pub states: BTreeSet<u64>,
    pub faults: BTreeMap<&'static str, u64>,
    pub probes: BTreeMap<&'static str, u64>,
    pub sim_time_ns: u128,
    pub steps: u64,
    pub other_property_violations: BTreeMap<String, u64>,
    /// (run index, violation, record)
    pub failures: Vec<(u64, Violation, Vec<u32>)>,
    pub harness_errors: Vec<(u64, String)>,
    pub samples: Vec<Value>,
    pub wall_s: f64,
    pub stopped_early: bool,
    pub known_kept: BTreeMap<&'static str, u64>,
}

impl Aggregate {
    fn absorb(&mut self, idx: u64, o: Outcome, rec: &[u32], property: &str) {
        self.evaluations += o.evals.max(1);
        if o.nontrivial {
            self.nontrivial += 1;
            if self.distinct_nontrivial.insert(o.trace_hash) {
                self.distinct_extra += o.distinct_extra.saturating_sub(1);
            }
        }
        self.distinct_traces.insert(o.trace_hash);
        self.states.extend(o.states.iter().copied());
        for (k, v) in &o.faults {
            *self.faults.entry(k).or_insert(0) += v;
        }
        for (k, v) in &o.probes {
            *self.probes.entry(k).or_insert(0) += v;
        }
        self.sim_time_ns += o.sim_time_ns;
        self.steps += o.steps;
        for v in o.violations {
            if v.property == property {
                self.failures.push((idx, v, rec.to_vec()));
            } else {
                *self
                    .other_property_violations
                    .entry(format!("{}/{}", v.property, v.rule))
                    .or_insert(0) += 1;
            }
        }
    }

    fn merge(&mut self, other: Aggregate) {
        self.evaluations += other.evaluations;
        self.nontrivial += other.nontrivial;
        self.distinct_nontrivial.extend(other.distinct_nontrivial);
        self.distinct_extra += other.distinct_extra;
        self.distinct_traces.extend(other.distinct_traces);
        self.states.extend(other.states);
        for (k, v) in other.faults {
            *self.faults.entry(k).or_insert(0) += v;
        }
        for (k, v) in other.probes {
            *self.probes.entry(k).or_insert(0) += v;
        }
        self.sim_time_ns += other.sim_time_ns;
        self.steps += other.steps;
        for (k, v) in other.other_property_violations {
            *self.other_property_violations.entry(k).or_insert(0) += v;
        }
        self.failures.extend(other.failures);
        self.harness_errors.extend(other.harness_errors);
        self.samples.extend(other.samples);
    }
}

pub fn run_seed(cfg: &BatchCfg, idx: u64) -> u64 {
    mix(cfg.seed, &format!("{}/{}", cfg.property, cfg.label), idx)
}

/// Run a batch, in this process or (for engines that ask for it) sharded over worker processes.
pub fn run_batch(engine: &dyn Engine, cfg: &BatchCfg) -> Aggregate {
    // every batch runs in worker processes (one single-threaded worker per core): engines that create OS threads per
    // run need it for speed, and all of them need it so that code under test which ABORTS the process (a panic while
    // unwinding, a refused allocation, a blown stack) takes down a worker and not the check - see `progress_path`
    let _ = engine.shard_over_processes();
    if cfg.shard.1 == 1 && cfg.threads > 1 && cfg.runs >= 64 {
        return run_batch_sharded(engine, cfg);
    }
    run_batch_local(engine, cfg)
}

/// Where worker `k` of a batch leaves the index of the run it is executing (8 bytes, rewritten before every run, never
/// synced: the page cache outlives the process). If the worker dies, this is the run that killed it.
pub fn progress_path(cfg: &BatchCfg, engine: &dyn Engine, k: u64) -> PathBuf {
    cfg.verif_dir.join("replays").join(format!(".progress-{}-{}-{}-{k}", engine.name(), cfg.property, cfg.seed))
}

fn run_batch_sharded(engine: &dyn Engine, cfg: &BatchCfg) -> Aggregate {
    let start = Instant::now();
    let exe = std::env::current_exe().expect("current exe");
    let n = cfg.threads as u64;
    let mut children = Vec::new();
    for k in 0..n {
        let child = std::process::Command::new(&exe)
            .arg("worker")
            .arg(engine.name())
            .arg(cfg.property)
            .arg(if cfg.thorough { "thorough" } else { "quick" })
            .arg(cfg.seed.to_string())
            .arg(cfg.runs.to_string())
            .arg(format!("{k}/{n}"))
            .arg(cfg.max_wall_s.to_string())
            .env("VERIF_DIR", &cfg.verif_dir)
            .stdout(std::process::Stdio::piped())
            .stderr(std::process::Stdio::inherit())
            .spawn()
            .expect("spawn worker process");
        children.push(child);
    }
    let mut total = Aggregate::default();
    // Watch the workers: their output is drained by reader threads (so that none blocks on a full pipe), their
    // progress notes are polled, and a worker whose note has not moved for `stall_s` seconds of wall-clock time is
    // stuck inside one run (a real deadlock or an endless loop in the code under test: virtual time cannot run away,
    // every engine caps its steps) - it is killed and the run reported.
    let stall_s: f64 = std::env::var("VERIF_STALL_S").ok().and_then(|s| s.parse().ok()).unwrap_or(if cfg.thorough { 600.0 } else { 240.0 });
    let mut readers = Vec::new();
    for child in children.iter_mut() {
        let mut stdout = child.stdout.take().expect("piped stdout");
        readers.push(std::thread::spawn(move || {
            use std::io::Read;
            let mut text = String::new();
            let _ = stdout.read_to_string(&mut text);
            text
        }));
    }
    let mut status: Vec<Option<std::process::ExitStatus>> = vec![None; children.len()];
    let mut hung: Vec<Option<u64>> = vec![None; children.len()];
    let mut last: Vec<(Option<u64>, Instant)> = vec![(None, Instant::now()); children.len()];
    while status.iter().any(|s| s.is_none()) {
        for (k, child) in children.iter_mut().enumerate() {
            if status[k].is_some() {
                continue;
            }
            if let Ok(Some(st)) = child.try_wait() {
                status[k] = Some(st);
                continue;
            }
            let idx = std::fs::read(progress_path(cfg, engine, k as u64))
                .ok()
                .filter(|b| b.len() == 8)
                .map(|b| u64::from_le_bytes(b.try_into().unwrap()));
            if idx != last[k].0 {
                last[k] = (idx, Instant::now());
            } else if idx.is_some() && last[k].1.elapsed().as_secs_f64() > stall_s {
                hung[k] = idx;
                let _ = child.kill();
                status[k] = child.wait().ok();
            }
        }
        std::thread::sleep(std::time::Duration::from_millis(200));
    }
    for (k, reader) in readers.into_iter().enumerate() {
        let text = reader.join().unwrap_or_default();
        let out_status = status[k].expect("status");
        if let Some(idx) = hung[k] {
            total.failures.push((
                idx,
                Violation {
                    property: intern(cfg.property),
                    rule: "run_hung",
                    detail: format!(
                        "run #{idx} of {} made no progress for {stall_s} s of wall-clock time and was killed: the code under test is stuck (a deadlock on a real lock, or a loop that never reaches a scheduling point)",
                        engine.name()
                    ),
                },
                Vec::new(),
            ));
            continue;
        }
        struct Out {
            status: std::process::ExitStatus,
        }
        let out = Out { status: out_status };
        match text.lines().rev().find(|l| l.starts_with('{')).and_then(|l| serde_json::from_str::<Value>(l).ok()) {
            Some(v) => {
                let a = Aggregate::from_json(&v);
                let stopped = a.stopped_early;
                total.merge(a);
                total.stopped_early |= stopped;
            }
            None => {
                use std::os::unix::process::ExitStatusExt;
                let idx = std::fs::read(progress_path(cfg, engine, k as u64))
                    .ok()
                    .filter(|b| b.len() == 8)
                    .map(|b| u64::from_le_bytes(b.try_into().unwrap()));
                match (out.status.signal(), idx) {
                    // killed by a signal in the middle of a run: the code under test aborted the process
                    (Some(sig), Some(idx)) => total.failures.push((
                        idx,
                        Violation {
                            property: intern(cfg.property),
                            rule: "process_aborted",
                            detail: format!(
                                "the process executing run #{idx} of {} was killed by signal {sig} (abort: a panic while unwinding, a refused allocation or a blown stack in the code under test); nothing but the run's seed survives such a death",
                                engine.name()
                            ),
                        },
                        Vec::new(),
                    )),
                    _ => total.harness_errors.push((k as u64, format!("worker process {k} produced no result (status {:?})", out.status))),
                }
            }
        }
    }
    for k in 0..n {
        let _ = std::fs::remove_file(progress_path(cfg, engine, k));
    }
    total.failures.sort_by(|a, b| a.0.cmp(&b.0));
    total.harness_errors.sort();
    total.samples.sort_by_key(|s| s["run"].as_u64());
    total.wall_s = start.elapsed().as_secs_f64();
    total
}

pub fn run_batch_local(engine: &dyn Engine, cfg: &BatchCfg) -> Aggregate {
    install_panic_hook();
    let next = AtomicU64::new(0);
    let stop = AtomicBool::new(false);
    let total = Mutex::new(Aggregate::default());
    let start = Instant::now();
    let failures_seen = AtomicU64::new(0);
    let known = load_known_findings(&cfg.verif_dir.join("known_findings.json"));
    // a worker process (one thread, one shard) leaves a note of the run it is in, for its parent to find if it dies
    let progress: Option<std::fs::File> = if cfg.shard.1 > 1 && cfg.threads <= 1 {
        let path = progress_path(cfg, engine, cfg.shard.0);
        std::fs::create_dir_all(path.parent().unwrap()).ok();
        std::fs::File::create(path).ok()
    } else {
        None
    };

    std::thread::scope(|s| {
        for _ in 0..cfg.threads.max(1) {
            s.spawn(|| {
                let mut agg = Aggregate::default();
                loop {
                    if stop.load(Ordering::Relaxed) {
                        break;
                    }
                    let idx = next.fetch_add(1, Ordering::Relaxed) * cfg.shard.1 + cfg.shard.0;
                    if idx >= cfg.runs {
                        break;
                    }
                    if (idx / cfg.shard.1) % 64 == 0 && start.elapsed().as_secs_f64() > cfg.max_wall_s {
                        stop.store(true, Ordering::Relaxed);
                        agg.stopped_early = true;
                        break;
                    }
                    if let Some(f) = &progress {
                        use std::os::unix::fs::FileExt;
                        let _ = f.write_at(&idx.to_le_bytes(), 0);
                    }
                    let mut ch = Choices::from_seed(run_seed(cfg, idx));
                    let ctx = RunCtx {
                        property: cfg.property,
                        thorough: cfg.thorough,
                        want_trace: idx < 3,
                    };
                    match run_once(engine, &mut ch, &ctx) {
                        Ok(o) => {
                            if idx < 3 {
                                agg.samples.push(json!({
                                    "run": idx,
                                    "run_seed": run_seed(cfg, idx),
                                    "choices": ch.record.len(),
                                    "history": o.trace.iter().take(80).cloned().collect::<Vec<_>>(),
                                }));
                            }
                            // violations matching a listed known finding do not stop the batch early,
                            // and only the first few records of each are kept
                            let nfail = o
                                .violations
                                .iter()
                                .filter(|v| v.property == cfg.property && known_match(&known, v).is_none())
                                .count();
                            let mut o = o;
                            o.violations.retain(|v| {
                                if v.property == cfg.property && known_match(&known, v).is_some() {
                                    let n = agg.known_kept.entry(v.rule).or_insert(0);
                                    *n += 1;
                                    *n <= 2
                                } else {
                                    true
                                }
                            });
                            agg.absorb(idx, o, &ch.record, cfg.property);
                            if nfail > 0 && failures_seen.fetch_add(nfail as u64, Ordering::Relaxed) > 200 {
                                // enough to report; don't drown in failures on a broken tree
                                stop.store(true, Ordering::Relaxed);
                            }
                        }
                        Err(msg) => {
                            agg.harness_errors.push((idx, msg));
                            if agg.harness_errors.len() > 5 {
                                stop.store(true, Ordering::Relaxed);
                            }
                        }
                    }
                }
                let stopped = agg.stopped_early;
                let mut t = total.lock().unwrap();
                t.merge(agg);
                t.stopped_early |= stopped;
            });
        }
    });

    let mut agg = total.into_inner().unwrap();
    agg.failures.sort_by(|a, b| a.0.cmp(&b.0));
    agg.harness_errors.sort();
    agg.samples.sort_by_key(|s| s["run"].as_u64());
    agg.wall_s = start.elapsed().as_secs_f64();
    agg
}

// ---------------------------------------------------------------------------------------------
// Minimisation (delta debugging over the choice list)

pub fn reproduces(engine: &dyn Engine, rec: &[u32], ctx: &RunCtx, target: &Violation) -> bool {
    let mut ch = Choices::from_record(rec);
    match run_once(engine, &mut ch, ctx) {
        Ok(o) => o
            .violations
            .iter()
            .any(|v| v.property == target.property && v.rule == target.rule),
        Err(_) => false,
    }
}

pub fn minimise(engine: &dyn Engine, rec: &[u32], ctx: &RunCtx, target: &Violation, budget: usize) -> Vec<u32> {
    let mut best: Vec<u32> = rec.to_vec();
    let mut tries = 0usize;
    let started = Instant::now();
    let mut test = |cand: &[u32], tries: &mut usize| -> bool {
        *tries += 1;
        reproduces(engine, cand, ctx, target)
    };
    let out_of_budget = |tries: usize| tries >= budget || started.elapsed().as_secs_f64() > 60.0;

    // strip trailing zeros (they are implied)
    while best.last() == Some(&0) {
        best.pop();
    }
    // 1. truncation by halving
    let mut keep = best.len();
    while keep > 0 && !out_of_budget(tries) {
        let cand = &best[..keep / 2];
        if test(cand, &mut tries) {
            keep /= 2;
            best.truncate(keep);
        } else {
            break;
        }
    }
    // 2. delete chunks, 3. zero chunks, repeated until no progress
    loop {
        let mut progress = false;
        let mut chunk = (best.len() / 2).max(1);
        while chunk >= 1 && !out_of_budget(tries) {
            let mut i = 0;
            while i < best.len() && !out_of_budget(tries) {
                let end = (i + chunk).min(best.len());
                let mut cand = best.clone();
                cand.drain(i..end);
                if test(&cand, &mut tries) {
                    best = cand;
                    progress = true;
                } else {
                    // try zeroing instead
                    if best[i..end].iter().any(|v| *v != 0) {
                        let mut cand = best.clone();
                        for v in &mut cand[i..end] {
                            *v = 0;
                        }
                        if test(&cand, &mut tries) {
                            best = cand;
                            progress = true;
                        }
                    }
                    i += chunk;
                }
            }
            if chunk == 1 {
                break;
            }
            chunk /= 2;
        }
        // 4. lower individual values
        let mut i = 0;
        while i < best.len() && !out_of_budget(tries) {
            if best[i] > 1 {
                let mut cand = best.clone();
                cand[i] = best[i] / 2;
                if test(&cand, &mut tries) {
                    best = cand;
                    progress = true;
                    continue;
                }
                let mut cand = best.clone();
                cand[i] = best[i] - 1;
                if test(&cand, &mut tries) {
                    best = cand;
                    progress = true;
                    continue;
                }
            }
            i += 1;
        }
        while best.last() == Some(&0) {
            best.pop();
        }
        if !progress || out_of_budget(tries) {
            break;
        }
    }
    best
}

// ---------------------------------------------------------------------------------------------
// Replay files

pub fn write_replay(
    dir: &Path,
    engine: &dyn Engine,
    cfg: &BatchCfg,
    idx: u64,
    v: &Violation,
    original: &[u32],
    minimised: &[u32],
) -> PathBuf {
    std::fs::create_dir_all(dir).ok();
    // replay the minimised list once more to capture its history and hash
    let ctx = RunCtx {
        property: cfg.property,
        thorough: cfg.thorough,
        want_trace: true,
    };
    let mut ch = Choices::from_record(minimised);
    let (trace, hash, detail) = match run_once(engine, &mut ch, &ctx) {
        Ok(o) => {
            let d = o
                .violations
                .iter()
                .find(|x| x.property == v.property && x.rule == v.rule)
                .map(|x| x.detail.clone())
                .unwrap_or_default();
            (o.trace, o.trace_hash, d)
        }
        Err(e) => (vec![format!("harness error on replay: {e}")], 0, String::new()),
    };
    let path = dir.join(format!("{}-{}-{}-{:06}.min.json", v.property, v.rule, cfg.seed, idx));
    let doc = json!({
        "property": v.property,
        "rule": v.rule,
        "detail": detail,
        "detail_before_minimisation": v.detail,
        "engine": engine.name(),
        "label": cfg.label,
        "thorough": cfg.thorough,
        "verif_seed": cfg.seed,
        "run_index": idx,
        "run_seed": run_seed(cfg, idx),
        "choices": minimised,
        "choices_before_minimisation": original.len(),
        "trace_hash": format!("{hash:016x}"),
        "history": trace,
        "replay": format!("./check --replay {}", path.display()),
    });
    std::fs::write(&path, serde_json::to_string_pretty(&doc).unwrap()).expect("write replay");
    path
}

pub struct ReplayDoc {
    pub property: String,
    pub rule: String,
    pub engine: String,
    pub label: String,
    pub thorough: bool,
    pub choices: Vec<u32>,
    pub trace_hash: String,
    /// the run killed its process: it is named by its seed and must be replayed in a child process
    pub aborts_process: bool,
    pub run_seed: u64,
}

pub fn read_replay(path: &Path) -> Result<ReplayDoc, String> {
    let text = std::fs::read_to_string(path).map_err(|e| format!("{e}"))?;
    let v: Value = serde_json::from_str(&text).map_err(|e| format!("{e}"))?;
    Ok(ReplayDoc {
        property: v["property"].as_str().unwrap_or("").to_string(),
        rule: v["rule"].as_str().unwrap_or("").to_string(),
        engine: v["engine"].as_str().unwrap_or("").to_string(),
        label: v["label"].as_str().unwrap_or("").to_string(),
        thorough: v["thorough"].as_bool().unwrap_or(false),
        choices: v["choices"]
            .as_array()
            .map(|a| a.iter().map(|x| x.as_u64().unwrap_or(0) as u32).collect())
            .unwrap_or_default(),
        trace_hash: v["trace_hash"].as_str().unwrap_or("").to_string(),
        aborts_process: v["aborts_process"].as_bool().unwrap_or(false),
        run_seed: v["run_seed"].as_u64().unwrap_or(0),
    })
}

// ---------------------------------------------------------------------------------------------
// Reporting: violations, known findings, evidence

pub struct CheckResult {
    pub exit_code: i32,
    pub violations_reported: u64,
    pub known_reported: u64,
}

pub struct Part<'a> {
    pub engine: &'a dyn Engine,
    pub cfg: BatchCfg,
    pub agg: Aggregate,
}

/// Report on one or more engine batches that together decide one property, write the evidence
/// file, and compute the exit code.
pub fn report(
    property: &'static str,
    level: &str,
    tier: &str,
    seed: u64,
    parts: &mut [Part<'_>],
    extra: Value,
    assumptions: Vec<String>,
) -> CheckResult {
    let verif_dir = parts[0].cfg.verif_dir.clone();
    let known = load_known_findings(&verif_dir.join("known_findings.json"));
    let mut exit_code = 0;
    let mut nviol = 0u64;
    let mut nknown = 0u64;
    let mut harness_errors = Vec::new();
    let mut reported = Vec::new();

    for part in parts.iter_mut() {
        for (idx, msg) in &part.agg.harness_errors {
            harness_errors.push(format!("{} run {}: {}", part.engine.name(), idx, msg));
        }
        // group failures by rule (+ known-finding identity), smallest run index first
        let mut seen: BTreeSet<(String, String)> = BTreeSet::new();
        let failures = std::mem::take(&mut part.agg.failures);
        for (idx, v, rec) in &failures {
            let k = known_match(&known, v);
            let key = (
                v.rule.to_string(),
                k.map(|k| k.trigger.clone()).unwrap_or_else(|| "<new>".into()),
            );
            if !seen.insert(key) {
                continue;
            }
            match k {
                Some(k) => {
                    nknown += 1;
                    println!(
                        "KNOWN-FINDING: property={} rule={} {} [{}]",
                        v.property, v.rule, k.description, v.detail
                    );
                    reported.push(json!({"known_finding": true, "rule": v.rule, "detail": v.detail, "run": idx}));
                }
                None => {
                    let ctx = RunCtx {
                        property,
                        thorough: part.cfg.thorough,
                        want_trace: false,
                    };
                    if v.rule == "process_aborted" || v.rule == "run_hung" {
                        // cannot be re-executed in this process (it would die too) and has no recorded choices: the
                        // replay file names the run by its seed, and `replay` executes it in a child process
                        let dir = verif_dir.join("replays");
                        std::fs::create_dir_all(&dir).ok();
                        let path = dir.join(format!("{}-{}-{}-{:06}.json", v.property, v.rule, part.cfg.seed, idx));
                        let doc = json!({
                            "property": v.property,
                            "rule": v.rule,
                            "detail": v.detail,
                            "engine": part.engine.name(),
                            "label": part.cfg.label,
                            "thorough": part.cfg.thorough,
                            "verif_seed": part.cfg.seed,
                            "run_index": idx,
                            "run_seed": run_seed(&part.cfg, *idx),
                            "aborts_process": true,
                            "choices": [],
                            "trace_hash": "0000000000000000",
                            "history": [],
                            "replay": format!("./check --replay {}", path.display()),
                        });
                        std::fs::write(&path, serde_json::to_string_pretty(&doc).unwrap()).expect("write replay");
                        nviol += 1;
                        exit_code = 1;
                        println!("violation: property={} rule={} detail={}", v.property, v.rule, v.detail);
                        println!("VIOLATION property={} replay={}", v.property, path.display());
                        reported.push(json!({"known_finding": false, "rule": v.rule, "detail": v.detail, "run": idx, "replay": path.display().to_string()}));
                        continue;
                    }
                    let min = if reproduces(part.engine, rec, &ctx, v) {
                        minimise(part.engine, rec, &ctx, v, part.engine.minimise_budget())
                    } else {
                        // not reproducible from its own record: that is a harness problem
                        harness_errors.push(format!(
                            "{} run {}: violation {}/{} did not reproduce from its recorded choices (nondeterminism)",
                            part.engine.name(),
                            idx,
                            v.property,
                            v.rule
                        ));
                        continue;
                    };
                    let path = write_replay(
                        &verif_dir.join("replays"),
                        part.engine,
                        &part.cfg,
                        *idx,
                        v,
                        rec,
                        &min,
                    );
                    nviol += 1;
                    exit_code = 1;
                    println!("violation: property={} rule={} detail={}", v.property, v.rule, v.detail);
                    println!("VIOLATION property={} replay={}", v.property, path.display());
                    reported.push(json!({"known_finding": false, "rule": v.rule, "detail": v.detail, "run": idx, "replay": path.display().to_string()}));
                }
            }
        }
        part.agg.failures = failures;
    }

    if !harness_errors.is_empty() {
        for e in &harness_errors {
            eprintln!("HARNESS-ERROR {e}");
        }
        if exit_code == 0 {
            exit_code = 2;
        }
    }

    // evidence
    let mut evaluations = 0u64;
    let mut distinct_nontrivial = 0u64;
    let mut states = 0u64;
    let mut wall = 0f64;
    let mut samples = Vec::new();
    let mut engines = Vec::new();
    let mut sim_time_ns = 0u128;
    for part in parts.iter() {
        let a = &part.agg;
        evaluations += a.evaluations;
        distinct_nontrivial += a.distinct_nontrivial.len() as u64 + a.distinct_extra;
        states += a.states.len() as u64;
        wall += a.wall_s;
        sim_time_ns += a.sim_time_ns;
        samples.extend(a.samples.iter().cloned());
        let zero_probes: Vec<&str> = a.probes.iter().filter(|(_, v)| **v == 0).map(|(k, _)| *k).collect();
        engines.push(json!({
            "engine": part.engine.name(),
            "label": part.cfg.label,
            "executions": a.evaluations,
            "runs_requested": part.cfg.runs,
            "stopped_early_on_wall_clock": a.stopped_early,
            "nontrivial_runs": a.nontrivial,
            "distinct_nontrivial_histories": a.distinct_nontrivial.len(),
            "distinct_histories": a.distinct_traces.len(),
            "distinct_abstract_states": a.states.len(),
            "scheduler_steps": a.steps,
            "simulated_time_s": a.sim_time_ns as f64 / 1e9,
            "runs_per_hour": if a.wall_s > 0.0 { (a.evaluations as f64 / a.wall_s * 3600.0) as u64 } else { 0 },
            "wall_s": a.wall_s,
            "threads": part.cfg.threads,
            "faults_fired": a.faults,
            "probes": a.probes,
            "probes_stuck_at_zero": zero_probes,
            "violations_of_other_properties_seen": a.other_property_violations,
            "real_vs_stub": part.engine.real_vs_stub(),
            "rule": part.engine.rule(),
        }));
    }
    let rule = parts
        .iter()
        .map(|p| format!("[{}] {}", p.engine.name(), p.engine.rule()))
        .collect::<Vec<_>>()
        .join(" ");
    let doc = json!({
        "property_id": property,
        "tier": tier,
        "seed": seed,
        "level": level,
        "coverage": {
            "evaluations": evaluations,
            "distinct_nontrivial": distinct_nontrivial,
            "rule": rule,
            "samples": samples,
            "states": states,
            "simulated_time_s": sim_time_ns as f64 / 1e9,
            "engines": engines,
            "reported": reported,
            "extra": extra,
        },
        "assumptions": assumptions,
        "wall_s": wall,
        "violations": nviol,
        "known_findings_reported": nknown,
    });
    let ev_dir = verif_dir.join("evidence");
    std::fs::create_dir_all(&ev_dir).ok();
    std::fs::write(
        ev_dir.join(format!("{property}.json")),
        serde_json::to_string_pretty(&doc).unwrap(),
    )
    .expect("write evidence");

    println!(
        "check {property} tier={tier} seed={seed}: {evaluations} runs, {distinct_nontrivial} distinct non-trivial histories, {nviol} violations, {nknown} known findings, {:.1}s",
        wall
    );
    CheckResult {
        exit_code,
        violations_reported: nviol,
        known_reported: nknown,
    }
}

pub fn history_hash(trace_items: impl Iterator<Item = impl AsRef<str>>) -> u64 {
    let mut h = Fnv::new();
    for t in trace_items {
        h.str(t.as_ref());
    }
    h.finish()
}

// ---------------------------------------------------------------------------------------------
// Live heap bytes of the process (the simulator binary installs this as its global allocator): "grows without bound" is
// about memory, which no queue-length metric shows.

pub struct CountingAlloc;

static LIVE_BYTES: std::sync::atomic::AtomicIsize = std::sync::atomic::AtomicIsize::new(0);

unsafe impl std::alloc::GlobalAlloc for CountingAlloc {
    unsafe fn alloc(&self, layout: std::alloc::Layout) -> *mut u8 {
        let p = std::alloc::System.alloc(layout);
        if !p.is_null() {
            LIVE_BYTES.fetch_add(layout.size() as isize, std::sync::atomic::Ordering::Relaxed);
        }
        p
    }
    unsafe fn dealloc(&self, ptr: *mut u8, layout: std::alloc::Layout) {
        LIVE_BYTES.fetch_sub(layout.size() as isize, std::sync::atomic::Ordering::Relaxed);
        std::alloc::System.dealloc(ptr, layout)
    }
    unsafe fn realloc(&self, ptr: *mut u8, layout: std::alloc::Layout, new_size: usize) -> *mut u8 {
        let p = std::alloc::System.realloc(ptr, layout, new_size);
        if !p.is_null() {
            LIVE_BYTES.fetch_add(new_size as isize - layout.size() as isize, std::sync::atomic::Ordering::Relaxed);
        }
        p
    }
}

/// Heap bytes currently allocated by this process (0 forever if the counting allocator is not installed).
pub fn live_bytes() -> isize {
    LIVE_BYTES.load(std::sync::atomic::Ordering::Relaxed)
}
