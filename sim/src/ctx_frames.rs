//! `ctx` engine, frame programs (C03): generated programs over the real `emit::Frame` /
//! `ThreadLocalCtxt` / erased-context API, executed as tasks on seeded lanes, against a
//! per-strand stack-of-maps reference.

use std::{
    collections::BTreeMap,
    future::Future,
    ops::ControlFlow,
    panic::{self, AssertUnwindSafe},
    pin::Pin,
    sync::{Arc, Mutex},
    task::{Context, Poll},
};

use emit::{
    ctxt::ErasedCtxt, platform::thread_local_ctxt::ThreadLocalCtxt, Ctxt, Frame, Props,
};
use serde_json::{json, Value as Json};

use crate::{
    choices::Choices,
    core::{history_hash, Engine, Injected, Outcome, RunCtx},
    lanes::{self, Lanes, Task},
};

pub struct CtxFrames;

type Map = BTreeMap<String, String>;

#[derive(Clone, Debug)]
enum V {
    Int(i64),
    Text(String),
    Trace(u128),
    Span(u64),
}

impl V {
    fn show(&self) -> String {
        match self {
            V::Int(i) => i.to_string(),
            V::Text(s) => s.clone(),
            V::Trace(t) => format!("{t:032x}"),
            V::Span(s) => format!("{s:016x}"),
        }
    }
}

#[derive(Clone, Copy, Debug, PartialEq)]
enum FKind {
    Push,
    Root,
    Disabled,
    Current,
}

#[derive(Clone, Copy, Debug, PartialEq)]
enum How {
    Enter,
    With,
    Call,
    InFn,
    InFuture,
    ReEnter,
    /// `into_parts`, `Ctxt::enter` / `Ctxt::exit` by hand, `from_parts`
    Manual,
}

#[derive(Clone, Debug)]
struct Spec {
    ctxt: usize,
    erased: bool,
    /// other ways to reach the same context (synchronous uses only): 0 none, 2 `&dyn ErasedCtxt` (no Send + Sync),
    /// 3 `&ThreadLocalCtxt`, 4 `Option<ThreadLocalCtxt>`, 5 `Arc<ThreadLocalCtxt>`, 6 `Box<dyn ErasedCtxt + Send + Sync>`, 7 `AssertInternal<ThreadLocalCtxt>`, 8 `AssertInternal<Option<..>>`, 9 `Box<ThreadLocalCtxt>`
    via: u8,
    kind: FKind,
    props: Vec<(String, V)>,
}

#[derive(Clone, Debug)]
enum N {
    Frame { spec: Spec, how: How, body: Arc<Vec<N>> },
    /// create a frame now, keep it in a slot
    Create { spec: Spec },
    /// use the most recently created, not yet used, slot frame
    UseSlot { how: How, body: Arc<Vec<N>> },
    Observe,
    Suspend(u8),
    Thread { carry: bool, body: Arc<Vec<N>> },
    Task { carry: bool, body: Arc<Vec<N>> },
    Panic,
    Catch(Arc<Vec<N>>),
}

// ---------------------------------------------------------------------------------------------

struct Log {
    trace: Vec<String>,
    violations: Vec<(&'static str, String)>,
    probes: BTreeMap<&'static str, u64>,
    spawned: Vec<(Task, String)>,
    next_strand: u32,
}

struct World {
    ctxts: [ThreadLocalCtxt; 3],
    /// context #1 wrapped so that its frame is too big for inline erased storage (exercises the boxed path)
    big: BigCtxt,
    log: Mutex<Log>,
}

const CANARY: [u64; 4] = [0x1111_2222_3333_4444, 0x5555_6666_7777_8888, 0x9999_aaaa_bbbb_cccc, 0xdddd_eeee_ffff_0001];

static CANARY_BROKEN: std::sync::atomic::AtomicU64 = std::sync::atomic::AtomicU64::new(0);

/// A context whose frame carries a canary next to the real frame: 40 bytes, so `ErasedFrame` must box it.
#[derive(Clone, Copy)]
struct BigCtxt(ThreadLocalCtxt);

struct BigFrame {
    inner: <ThreadLocalCtxt as Ctxt>::Frame,
    canary: [u64; 4],
}

impl BigFrame {
    fn check(&self) {
        if self.canary != CANARY {
            CANARY_BROKEN.fetch_add(1, std::sync::atomic::Ordering::SeqCst);
        }
    }
}

impl Ctxt for BigCtxt {
    type Current = <ThreadLocalCtxt as Ctxt>::Current;
    type Frame = BigFrame;

    fn open_root<P: Props>(&self, props: P) -> Self::Frame {
        BigFrame { inner: self.0.open_root(props), canary: CANARY }
    }
    fn open_push<P: Props>(&self, props: P) -> Self::Frame {
        BigFrame { inner: self.0.open_push(props), canary: CANARY }
    }
    fn open_disabled<P: Props>(&self, props: P) -> Self::Frame {
        BigFrame { inner: self.0.open_disabled(props), canary: CANARY }
    }
    fn enter(&self, frame: &mut Self::Frame) {
        frame.check();
        self.0.enter(&mut frame.inner)
    }
    fn with_current<R, F: FnOnce(&Self::Current) -> R>(&self, with: F) -> R {
        self.0.with_current(with)
    }
    fn exit(&self, frame: &mut Self::Frame) {
        frame.check();
        self.0.exit(&mut frame.inner)
    }
    fn close(&self, frame: Self::Frame) {
        frame.check();
        self.0.close(frame.inner)
    }
}

impl World {
    fn log(&self, s: String) {
        self.log.lock().unwrap().trace.push(s);
    }
    fn violate(&self, rule: &'static str, d: String) {
        let mut l = self.log.lock().unwrap();
        l.trace.push(format!("!! {rule}: {d}"));
        if !l.violations.iter().any(|v| v.0 == rule) {
            l.violations.push((rule, d));
        }
    }
    fn probe(&self, p: &'static str) {
        *self.log.lock().unwrap().probes.entry(p).or_insert(0) += 1;
    }
    fn erased(&self, i: usize) -> &(dyn ErasedCtxt + Send + Sync) {
        if i == 1 {
            // boxed erased frames
            &self.big
        } else {
            // inline erased frames
            &self.ctxts[i]
        }
    }
}

/// The reference: per strand (task / hand-off thread), per context instance, a stack of maps.
#[derive(Clone, Debug)]
struct Strand {
    name: String,
    stacks: [Vec<Map>; 3],
    /// inside a hand-entered frame: injected panics are skipped (nothing would exit the frame)
    no_panic: bool,
}

impl Strand {
    fn top(&self, c: usize) -> Map {
        self.stacks[c].last().cloned().unwrap_or_default()
    }
}

fn read<C: Ctxt>(c: &C) -> Map {
    c.with_current(|p| {
        let mut m = Map::new();
        let _ = p.for_each(|k, v| {
            m.insert(k.to_string(), v.to_string());
            ControlFlow::Continue(())
        });
        m
    })
}

fn ambient_leaks(w: &World) -> Vec<String> {
    let mut out = Vec::new();
    for (i, c) in w.ctxts.iter().enumerate() {
        let m = read(c);
        if !m.is_empty() {
            out.push(format!("context #{i} still shows {m:?}"));
        }
    }
    out
}

fn observe(w: &World, s: &Strand, whence: &str) {
    for i in 0..3 {
        let want = s.top(i);
        let got = read(&w.ctxts[i]);
        let got_erased = read(&w.erased(i));
        if got != want {
            w.violate(
                "ambient_mismatch",
                format!("{} {whence}: context #{i} shows {got:?}, innermost active frame says {want:?}", s.name),
            );
        }
        if got_erased != got {
            w.violate(
                "erased_differs",
                format!("{} {whence}: context #{i} shows {got:?} directly but {got_erased:?} through the erased path", s.name),
            );
        }
        // an observation made from inside an observation (an emitter or filter that looks at the ambient context
        // itself, a closure handed to `with_current` that emits): the context is the same one there, and what is
        // pushed and entered there sits on top of it
        let (nested, pushed_inside) = w.ctxts[i].with_current(|_outer| {
            let nested = read(&w.ctxts[i]);
            let mut frame = Frame::push(w.ctxts[i], [("pushed_inside_an_observation", 1)]);
            let inside = frame.with(|_| read(&w.ctxts[i]));
            drop(frame);
            (nested, inside)
        });
        if nested != want {
            w.violate(
                "ambient_reentrant",
                format!("{} {whence}: inside a with_current callback context #{i} shows {nested:?}, innermost active frame says {want:?}", s.name),
            );
        }
        let mut want_inside = want.clone();
        want_inside.insert("pushed_inside_an_observation".to_string(), "1".to_string());
        if pushed_inside != want_inside {
            w.violate(
                "ambient_reentrant",
                format!("{} {whence}: a frame pushed and entered inside a with_current callback of context #{i} shows {pushed_inside:?}, expected {want_inside:?}", s.name),
            );
        }
        let after = read(&w.ctxts[i]);
        if after != want {
            w.violate(
                "ambient_reentrant",
                format!("{} {whence}: after the nested observation context #{i} shows {after:?}, expected {want:?}", s.name),
            );
        }
        // lookups agree with enumeration
        for (k, v) in &want {
            let direct = w.ctxts[i].with_current(|p| p.get(k.as_str()).map(|v| v.to_string()));
            if direct.as_ref() != Some(v) {
                w.violate(
                    "ambient_lookup",
                    format!("{} {whence}: context #{i} get({k}) = {direct:?}, expected {v}", s.name),
                );
            }
        }
    }
    w.log(format!("{} observes {whence}: {:?}", s.name, [s.top(0), s.top(1), s.top(2)]));
}

fn model_value(s: &Strand, spec: &Spec) -> Map {
    let mut m = match spec.kind {
        FKind::Root => Map::new(),
        _ => s.top(spec.ctxt),
    };
    if matches!(spec.kind, FKind::Push | FKind::Root) {
        for (k, v) in &spec.props {
            m.insert(k.clone(), v.show());
        }
    }
    m
}

fn with_props<R>(props: &[(String, V)], f: impl FnOnce(&[(emit::Str<'_>, emit::Value<'_>)]) -> R) -> R {
    let traces: Vec<Option<emit::TraceId>> = props
        .iter()
        .map(|(_, v)| if let V::Trace(t) = v { emit::TraceId::from_u128(*t) } else { None })
        .collect();
    let spans: Vec<Option<emit::SpanId>> = props
        .iter()
        .map(|(_, v)| if let V::Span(s) = v { emit::SpanId::from_u64(*s) } else { None })
        .collect();
    let mut built: Vec<(emit::Str<'_>, emit::Value<'_>)> = Vec::new();
    for (i, (k, v)) in props.iter().enumerate() {
        let val = match v {
            V::Int(n) => emit::Value::from(*n),
            V::Text(s) => emit::Value::from(s.as_str()),
            V::Trace(_) => emit::Value::from_any(traces[i].as_ref().unwrap()),
            V::Span(_) => emit::Value::from_any(spans[i].as_ref().unwrap()),
        };
        built.push((emit::Str::new_ref(k), val));
    }
    f(&built)
}

fn make_frame<C: Ctxt>(c: C, spec: &Spec) -> Frame<C> {
    with_props(&spec.props, |p| match spec.kind {
        FKind::Push => Frame::push(c, p),
        FKind::Root => Frame::root(c, p),
        FKind::Disabled => Frame::disabled(c, p),
        FKind::Current => Frame::current(c),
    })
}

type Slots = Vec<(Frame<ThreadLocalCtxt>, usize, Map)>;

/// Use `frame` in a synchronous way around `body`.
fn use_frame_sync<C: Ctxt>(
    w: &Arc<World>,
    s: &mut Strand,
    mut frame: Frame<C>,
    c: usize,
    value: Map,
    how: How,
    body: &Arc<Vec<N>>,
    slots: &mut Slots,
) {
    match how {
        How::With => {
            // Frame::with: the frame's properties are what `with` sees, and what is ambient inside it
            s.stacks[c].push(value.clone());
            let seen = frame.with(|p| {
                let mut m = Map::new();
                let _ = p.for_each(|k, v| {
                    m.insert(k.to_string(), v.to_string());
                    ControlFlow::Continue(())
                });
                m
            });
            s.stacks[c].pop();
            if seen != value {
                w.violate("frame_with", format!("{}: Frame::with saw {seen:?}, frame holds {value:?}", s.name));
            }
            run_sync(w, s, body, slots);
        }
        How::Enter => {
            {
                let _g = frame.enter();
                s.stacks[c].push(value);
                run_sync(w, s, body, slots);
                s.stacks[c].pop();
            }
            observe(w, s, "after guard drop");
        }
        How::ReEnter => {
            {
                let _g = frame.enter();
                s.stacks[c].push(value.clone());
                run_sync(w, s, body, slots);
                s.stacks[c].pop();
            }
            observe(w, s, "between re-entries");
            {
                let _g = frame.enter();
                s.stacks[c].push(value);
                observe(w, s, "inside re-entered frame");
                s.stacks[c].pop();
            }
            w.probe("frame_re_entered");
        }
        How::Call | How::InFuture => {
            s.stacks[c].push(value);
            frame.call(|| run_sync(w, s, body, slots));
            s.stacks[c].pop();
        }
        How::Manual => {
            w.probe("frame_entered_by_hand_through_parts");
            let (ctxt, mut inner) = frame.into_parts();
            ctxt.enter(&mut inner);
            s.stacks[c].push(value);
            // (no unwinding protection by construction: the body of a hand-entered frame does not panic)
            let saved_panics = std::mem::replace(&mut s.no_panic, true);
            run_sync(w, s, body, slots);
            s.no_panic = saved_panics;
            s.stacks[c].pop();
            ctxt.exit(&mut inner);
            drop(Frame::from_parts(ctxt, inner));
        }
        How::InFn => {
            s.stacks[c].push(value);
            let f = frame.in_fn(|| run_sync(w, s, body, slots));
            f();
            s.stacks[c].pop();
        }
    }
}

fn run_sync(w: &Arc<World>, s: &mut Strand, nodes: &Arc<Vec<N>>, slots: &mut Slots) {
    for n in nodes.iter() {
        match n {
            N::Observe => observe(w, s, "at observe"),
            N::Suspend(_) => observe(w, s, "at (sync) suspend"),
            N::Panic if s.no_panic => {}
            N::Panic => {
                w.log(format!("{} panics", s.name));
                w.probe("panic_injected");
                panic::panic_any(Injected("program"));
            }
            N::Catch(body) => {
                let saved = s.clone();
                let r = panic::catch_unwind(AssertUnwindSafe(|| run_sync(w, s, body, slots)));
                if r.is_err() {
                    let _ = crate::core::take_last_panic();
                    *s = saved;
                    w.probe("panic_caught_in_program");
                    observe(w, s, "after caught panic");
                }
            }
            N::Frame { spec, how, body } => {
                let value = model_value(s, spec);
                if spec.erased {
                    w.probe(if spec.ctxt == 1 { "erased_frame_boxed" } else { "erased_frame_inline" });
                    let frame = make_frame(w.erased(spec.ctxt), spec);
                    use_frame_sync(w, s, frame, spec.ctxt, value, *how, body, slots);
                } else {
                    let c = w.ctxts[spec.ctxt];
                    match spec.via {
                        2 => {
                            w.probe("via_dyn_erased_without_send_sync");
                            let e: &dyn ErasedCtxt = &c;
                            use_frame_sync(w, s, make_frame(e, spec), spec.ctxt, value, *how, body, slots);
                        }
                        3 => {
                            w.probe("via_reference");
                            use_frame_sync(w, s, make_frame(&c, spec), spec.ctxt, value, *how, body, slots);
                        }
                        4 => {
                            w.probe("via_option");
                            use_frame_sync(w, s, make_frame(Some(c), spec), spec.ctxt, value, *how, body, slots);
                        }
                        5 => {
                            w.probe("via_arc");
                            use_frame_sync(w, s, make_frame(Arc::new(c), spec), spec.ctxt, value, *how, body, slots);
                        }
                        6 => {
                            w.probe("via_boxed_erased");
                            let b: Box<dyn ErasedCtxt + Send + Sync> = Box::new(c);
                            use_frame_sync(w, s, make_frame(b, spec), spec.ctxt, value, *how, body, slots);
                        }
                        7 => {
                            // the wrapper that admits a context into the internal runtime
                            w.probe("via_assert_internal");
                            use_frame_sync(w, s, make_frame(emit::runtime::AssertInternal(c), spec), spec.ctxt, value, *how, body, slots);
                        }
                        8 => {
                            w.probe("via_assert_internal_option");
                            use_frame_sync(w, s, make_frame(emit::runtime::AssertInternal(Some(c)), spec), spec.ctxt, value, *how, body, slots);
                        }
                        9 => {
                            w.probe("via_box");
                            use_frame_sync(w, s, make_frame(Box::new(c), spec), spec.ctxt, value, *how, body, slots);
                        }
                        _ => {
                            let frame = make_frame(c, spec);
                            use_frame_sync(w, s, frame, spec.ctxt, value, *how, body, slots);
                        }
                    }
                }
                observe(w, s, "after frame");
            }
            N::Create { spec } => {
                let value = model_value(s, spec);
                let frame = make_frame(w.ctxts[spec.ctxt], spec);
                slots.push((frame, spec.ctxt, value));
            }
            N::UseSlot { how, body } => {
                if let Some((frame, c, value)) = slots.pop() {
                    w.probe("frame_entered_away_from_where_it_was_created");
                    use_frame_sync(w, s, frame, c, value, *how, body, slots);
                    observe(w, s, "after slot frame");
                }
            }
            N::Thread { carry, body } => {
                hand_off_thread(w, s, *carry, body);
                observe(w, s, "after thread hand-off");
            }
            N::Task { carry, body } => spawn_task(w, s, *carry, body),
        }
    }
}

fn hand_off_thread(w: &Arc<World>, s: &Strand, carry: bool, body: &Arc<Vec<N>>) {
    let id = {
        let mut l = w.log.lock().unwrap();
        l.next_strand += 1;
        l.next_strand
    };
    let mut child = Strand {
        name: format!("{}>thread{id}", s.name),
        stacks: [Vec::new(), Vec::new(), Vec::new()],
        no_panic: false,
    };
    w.probe("thread_hand_off");
    let w2 = w.clone();
    let body = body.clone();
    let handle = if carry {
        for i in 0..3 {
            child.stacks[i].push(s.top(i));
        }
        let f0 = Frame::current(w.ctxts[0]);
        let f1 = Frame::current(w.ctxts[1]);
        let f2 = Frame::current(w.ctxts[2]);
        let inner = move || {
            let mut child = child;
            let mut slots = Slots::new();
            observe(&w2, &child, "on arrival");
            run_sync(&w2, &mut child, &body, &mut slots);
        };
        let c = f0.in_fn(f1.in_fn(f2.in_fn(inner)));
        let w3 = w.clone();
        std::thread::spawn(move || {
            let r = panic::catch_unwind(AssertUnwindSafe(c));
            let leaks = ambient_leaks(&w3);
            (r.is_err(), leaks)
        })
    } else {
        let w3 = w.clone();
        std::thread::spawn(move || {
            let r = panic::catch_unwind(AssertUnwindSafe(move || {
                let mut child = child;
                let mut slots = Slots::new();
                observe(&w2, &child, "on arrival (nothing carried)");
                run_sync(&w2, &mut child, &body, &mut slots);
            }));
            let leaks = ambient_leaks(&w3);
            (r.is_err(), leaks)
        })
    };
    match handle.join() {
        Ok((panicked, leaks)) => {
            if panicked {
                w.probe("panic_unwound_hand_off_thread");
            }
            for l in leaks {
                w.violate("leak_on_thread", format!("hand-off thread of {} finished but {l}", s.name));
            }
        }
        Err(_) => w.violate("harness", "hand-off thread died outside catch_unwind".into()),
    }
}

fn spawn_task(w: &Arc<World>, s: &Strand, carry: bool, body: &Arc<Vec<N>>) {
    let id = {
        let mut l = w.log.lock().unwrap();
        l.next_strand += 1;
        l.next_strand
    };
    let mut child = Strand {
        name: format!("{}>task{id}", s.name),
        stacks: [Vec::new(), Vec::new(), Vec::new()],
        no_panic: false,
    };
    w.probe("task_spawned");
    let w2 = w.clone();
    let body = body.clone();
    let name = child.name.clone();
    let task: Task = if carry {
        for i in 0..3 {
            child.stacks[i].push(s.top(i));
        }
        let f0 = Frame::current(w.ctxts[0]);
        let f1 = Frame::current(w.ctxts[1]);
        let f2 = Frame::current(w.ctxts[2]);
        Box::pin(f0.in_future(f1.in_future(f2.in_future(async move {
            let mut child = child;
            let mut slots = Slots::new();
            observe(&w2, &child, "on first poll");
            run_async(&w2, &mut child, &body, &mut slots).await;
        }))))
    } else {
        Box::pin(async move {
            let mut child = child;
            let mut slots = Slots::new();
            observe(&w2, &child, "on first poll (nothing carried)");
            run_async(&w2, &mut child, &body, &mut slots).await;
        })
    };
    w.log.lock().unwrap().spawned.push((task, name));
}

struct Yield(u8);
impl Future for Yield {
    type Output = ();
    fn poll(mut self: Pin<&mut Self>, _: &mut Context<'_>) -> Poll<()> {
        if self.0 == 0 {
            Poll::Ready(())
        } else {
            self.0 -= 1;
            Poll::Pending
        }
    }
}

fn run_async<'a>(
    w: &'a Arc<World>,
    s: &'a mut Strand,
    nodes: &'a Arc<Vec<N>>,
    slots: &'a mut Slots,
) -> Pin<Box<dyn Future<Output = ()> + Send + 'a>> {
    Box::pin(async move {
        for n in nodes.iter() {
            match n {
                N::Suspend(k) => {
                    w.probe("suspend");
                    Yield(*k).await;
                    observe(w, s, "after resume");
                }
                N::Frame { spec, how: How::InFuture, body } if !spec.erased => {
                    let value = model_value(s, spec);
                    let frame = make_frame(w.ctxts[spec.ctxt], spec);
                    let c = spec.ctxt;
                    s.stacks[c].push(value);
                    frame.in_future(run_async(w, s, body, slots)).await;
                    s.stacks[c].pop();
                    w.probe("frame_in_future");
                    observe(w, s, "after frame future");
                }
                N::Frame { spec, how: How::InFuture, body } => {
                    let value = model_value(s, spec);
                    let frame = make_frame(w.erased(spec.ctxt), spec);
                    let c = spec.ctxt;
                    s.stacks[c].push(value);
                    frame.in_future(run_async(w, s, body, slots)).await;
                    s.stacks[c].pop();
                    w.probe("erased_frame_in_future");
                    observe(w, s, "after erased frame future");
                }
                N::UseSlot { how: How::InFuture, body } => {
                    if let Some((frame, c, value)) = slots.pop() {
                        w.probe("frame_entered_away_from_where_it_was_created");
                        s.stacks[c].push(value);
                        frame.in_future(run_async(w, s, body, slots)).await;
                        s.stacks[c].pop();
                        observe(w, s, "after slot frame future");
                    }
                }
                other => {
                    // everything else is synchronous (its body cannot suspend)
                    let one = Arc::new(vec![other.clone()]);
                    run_sync(w, s, &one, slots);
                }
            }
        }
    })
}

// ---------------------------------------------------------------------------------------------
// Program generation

fn gen_props(ch: &mut Choices, fresh: &mut u32) -> Vec<(String, V)> {
    let n = ch.choose(4);
    let mut out: Vec<(String, V)> = Vec::new();
    for _ in 0..n {
        // a few shared key names so frames shadow ancestors, distinct within one frame
        let key = match ch.choose(6) {
            0 => "a".to_string(),
            1 => "b".to_string(),
            2 => "trace_id".to_string(),
            3 => "span_id".to_string(),
            _ => {
                *fresh += 1;
                format!("k{fresh}")
            }
        };
        if out.iter().any(|(k, _)| *k == key) {
            continue;
        }
        *fresh += 1;
        let v = match (key.as_str(), ch.choose(4)) {
            ("trace_id", 0..=2) => V::Trace(0x1000_0000_0000_0000_0000_0000_0000_0000u128 + *fresh as u128),
            ("span_id", 0..=2) => V::Span(0x2000_0000_0000_0000u64 + *fresh as u64),
            (_, 0) => V::Text(format!("v{fresh}")),
            (_, 1) => V::Trace(0x3000_0000_0000_0000_0000_0000_0000_0000u128 + *fresh as u128),
            _ => V::Int(*fresh as i64),
        };
        out.push((key, v));
    }
    out
}

fn gen_spec(ch: &mut Choices, fresh: &mut u32) -> Spec {
    let kind = *ch.pick(&[FKind::Push, FKind::Push, FKind::Root, FKind::Disabled, FKind::Current]);
    let erased = ch.chance(1, 4);
    Spec {
        ctxt: ch.weighted(&[5, 2, 2]),
        erased,
        via: if !erased && ch.chance(1, 3) { 2 + ch.choose(8) as u8 } else { 0 },
        kind,
        props: gen_props(ch, fresh),
    }
}

fn gen_nodes(ch: &mut Choices, depth: u32, budget: &mut u32, fresh: &mut u32, is_async: bool) -> Arc<Vec<N>> {
    let mut out = Vec::new();
    let n = 1 + ch.choose(4);
    for _ in 0..n {
        if *budget == 0 {
            break;
        }
        *budget -= 1;
        let leaf = depth >= 6 || *budget == 0;
        // 0 observe, 1 frame, 2 suspend, 3 create+use slot, 4 thread, 5 task, 6 panic, 7 catch
        let kind = if leaf {
            ch.weighted(&[6, 0, if is_async { 3 } else { 0 }, 0, 0, 0, 1, 0])
        } else {
            ch.weighted(&[4, 10, if is_async { 4 } else { 0 }, 2, 2, 2, 1, 2])
        };
        match kind {
            0 => out.push(N::Observe),
            1 => {
                let spec = gen_spec(ch, fresh);
                let how = if is_async {
                    *ch.pick(&[How::InFuture, How::InFuture, How::Enter, How::With, How::Call, How::InFn, How::ReEnter])
                } else {
                    *ch.pick(&[How::Enter, How::With, How::Call, How::InFn, How::ReEnter, How::Manual])
                };
                let body_async = is_async && how == How::InFuture;
                let body = gen_nodes(ch, depth + 1, budget, fresh, body_async);
                out.push(N::Frame { spec, how, body });
            }
            2 => out.push(N::Suspend(1 + ch.choose(2) as u8)),
            3 => {
                let mut spec = gen_spec(ch, fresh);
                spec.erased = false;
                out.push(N::Create { spec });
                // enter another frame, and use the slot frame inside it
                let outer = gen_spec(ch, fresh);
                let how_outer = if is_async { How::InFuture } else { How::Call };
                let how = if is_async {
                    *ch.pick(&[How::InFuture, How::Enter, How::Call])
                } else {
                    *ch.pick(&[How::Enter, How::Call, How::InFn])
                };
                let inner_async = is_async && how == How::InFuture;
                let inner_body = gen_nodes(ch, depth + 2, budget, fresh, inner_async);
                let body = Arc::new(vec![N::Observe, N::UseSlot { how, body: inner_body }, N::Observe]);
                out.push(N::Frame {
                    spec: outer,
                    how: how_outer,
                    body,
                });
            }
            4 => {
                let body = gen_nodes(ch, depth + 1, budget, fresh, false);
                out.push(N::Thread {
                    carry: ch.chance(3, 4),
                    body,
                });
            }
            5 => {
                let body = gen_nodes(ch, depth + 1, budget, fresh, true);
                out.push(N::Task {
                    carry: ch.chance(3, 4),
                    body,
                });
            }
            6 => out.push(N::Panic),
            _ => {
                let body = gen_nodes(ch, depth + 1, budget, fresh, false);
                out.push(N::Catch(body));
            }
        }
    }
    Arc::new(out)
}

// ---------------------------------------------------------------------------------------------

impl Engine for CtxFrames {
    fn name(&self) -> &'static str {
        "ctx-frames"
    }

    fn real_vs_stub(&self) -> Json {
        json!({
            "real": ["emit::Frame (push/root/disabled/current, enter/with/call/in_fn/in_future)", "FrameFuture", "EnterGuard", "ThreadLocalCtxt (two isolated instances + shared)", "dyn ErasedCtxt / ErasedFrame (inline and boxed)", "real thread-locals on real OS threads", "real unwinding"],
            "simulated": ["executor: tasks are polled one poll at a time on 1-3 lane threads chosen by the seed (every steal and poll order decided by the seed)", "panic points, cancellation points"],
            "not_exercised": ["tokio / any production executor"]
        })
    }

    fn rule(&self) -> &'static str {
        "one run = one generated well-nested frame program (<= 40 nodes, depth <= 6) split over 1-4 tasks on 1-3 lanes plus hand-off threads, with a seeded poll order, panic points and cancellations; non-trivial = the run had a suspend between polls, a task migration between lanes, a thread/task hand-off, a panic or a cancellation; distinct = distinct hash of the recorded history"
    }

    fn shard_over_processes(&self) -> bool {
        true
    }

    fn run(&self, ch: &mut Choices, ctx: &RunCtx) -> Outcome {
        let mut out = Outcome::default();
        let n_lanes = 1 + ch.choose(3) as usize;
        let n_tasks = 1 + ch.choose(3) as usize;
        let cancel_enabled = ch.chance(1, 5);
        let sticky = ch.choose(4);
        let mut fresh = 0u32;
        let mut programs = Vec::new();
        for _ in 0..n_tasks {
            let mut budget = if ctx.thorough { 40 } else { 24 };
            programs.push(gen_nodes(ch, 0, &mut budget, &mut fresh, true));
        }

        // isolated instances come from `new()` or from `Default::default()` (what `emit::setup()` uses)
        let mk = |ch: &mut Choices| if ch.chance(1, 2) { ThreadLocalCtxt::new() } else { ThreadLocalCtxt::default() };
        let ctxts = [mk(ch), mk(ch), ThreadLocalCtxt::shared()];
        let broken_before = CANARY_BROKEN.load(std::sync::atomic::Ordering::SeqCst);
        let w = Arc::new(World {
            ctxts,
            big: BigCtxt(ctxts[1]),
            log: Mutex::new(Log {
                trace: Vec::new(),
                violations: Vec::new(),
                probes: BTreeMap::new(),
                spawned: Vec::new(),
                next_strand: 0,
            }),
        });
        w.log(format!("config: lanes={n_lanes} tasks={n_tasks} cancel={cancel_enabled} sticky={sticky}"));
        if ctx.want_trace {
            for (i, p) in programs.iter().enumerate() {
                w.log(format!("program of task{i}: {p:?}"));
            }
        }

        let post: lanes::PostCheck = {
            let w = w.clone();
            Arc::new(move || ambient_leaks(&w))
        };
        let lanes = Lanes::new(n_lanes, post);

        // (task, name, last lane)
        let mut tasks: Vec<(Task, String, Option<usize>)> = Vec::new();
        for (i, p) in programs.into_iter().enumerate() {
            let w2 = w.clone();
            let name = format!("task{i}");
            let strand = Strand {
                name: name.clone(),
                stacks: [Vec::new(), Vec::new(), Vec::new()],
                no_panic: false,
            };
            tasks.push((
                Box::pin(async move {
                    let mut strand = strand;
                    let mut slots = Slots::new();
                    run_async(&w2, &mut strand, &p, &mut slots).await;
                    observe(&w2, &strand, "at end of task");
                }),
                name,
                None,
            ));
        }

        let mut steps = 0u64;
        let mut last_pick = 0usize;
        let mut migrations = 0u64;
        let mut pendings = 0u64;
        while !tasks.is_empty() && steps < 2000 {
            steps += 1;
            let pick = if sticky > 0 && last_pick < tasks.len() && ch.choose(4) < sticky {
                last_pick
            } else {
                ch.choose(tasks.len() as u32) as usize
            };
            last_pick = pick;
            let lane = ch.choose(lanes.len() as u32) as usize;
            let (task, name, last_lane) = tasks.remove(pick);
            let cancel = cancel_enabled && last_lane.is_some() && ch.chance(1, 10);
            if let Some(l) = last_lane {
                if l != lane {
                    migrations += 1;
                }
            }
            let (res, leaks) = if cancel {
                w.log(format!("{name} is cancelled (dropped at a suspend point) on lane {lane}"));
                w.probe("task_cancelled");
                lanes.drop_on(lane, task)
            } else {
                lanes.poll_on(lane, task)
            };
            for l in leaks {
                w.violate(
                    "leak_after_poll",
                    format!("after {name} {} on lane {lane}, {l}", if cancel { "was cancelled" } else { "was polled" }),
                );
            }
            match res {
                lanes::Outcome::Ready => w.log(format!("{name} completed on lane {lane}")),
                lanes::Outcome::Pending(t) => {
                    pendings += 1;
                    w.log(format!("{name} suspended on lane {lane}"));
                    tasks.insert(pick.min(tasks.len()), (t, name, Some(lane)));
                }
                lanes::Outcome::Panicked(msg) => {
                    if msg.contains("<injected:") {
                        w.probe("panic_unwound_task");
                        w.log(format!("{name} died of an injected panic on lane {lane}"));
                    } else {
                        w.violate("unexpected_panic", format!("{name} panicked: {msg}"));
                    }
                }
                lanes::Outcome::Dropped => {}
            }
            let spawned: Vec<(Task, String)> = std::mem::take(&mut w.log.lock().unwrap().spawned);
            for (t, n) in spawned {
                tasks.push((t, n, None));
            }
        }
        drop(tasks);
        drop(lanes);

        if CANARY_BROKEN.load(std::sync::atomic::Ordering::SeqCst) != broken_before {
            w.violate("erased_frame_corrupted", "a boxed type-erased frame came back with a damaged payload".into());
        }
        let mut log = w.log.lock().unwrap();
        for (rule, d) in log.violations.drain(..) {
            if rule == "harness" {
                panic!("harness problem in ctx-frames: {d}");
            }
            out.violate("C03", rule, d);
        }
        out.probes = std::mem::take(&mut log.probes);
        if migrations > 0 {
            out.probes.insert("task_migrated_between_lanes", migrations);
        }
        if pendings > 0 {
            out.probes.insert("poll_returned_pending", pendings);
        }
        out.steps = steps;
        out.trace_hash = history_hash(log.trace.iter());
        out.nontrivial = migrations > 0
            || pendings > 0
            || ["thread_hand_off", "task_spawned", "panic_injected", "task_cancelled"]
                .iter()
                .any(|p| out.probes.contains_key(p));
        if ctx.want_trace {
            out.trace = std::mem::take(&mut log.trace);
        }
        out
    }
}
