//! C08, calling contexts of the blocking entry points: deterministic probes of the immediate paths
//! (nothing to wait for, or a zero timeout) from a plain thread, inside a tokio current-thread
//! runtime, on the `block_on` thread of a multi-thread runtime, on a multi-thread worker and on a
//! `spawn_blocking` thread. Real tokio threads cannot be scheduled by the simulator, so only paths
//! that return without waiting are probed: the call must return the right value and not panic.

use std::{
    panic::{self, AssertUnwindSafe},
    sync::Arc,
    time::Duration,
};

use emit_batcher::{Receiver, Sender};
use serde_json::{json, Value};

use crate::{
    choices::Choices,
    core::{take_last_panic, Engine, Outcome, RunCtx},
    rng::Fnv,
};

pub struct CallingContexts;

#[derive(Clone, Copy, Debug)]
enum Call {
    FlushEmpty,
    FlushZeroPending,
    SendRoom,
    SendFullZero,
    /// something is pending, nobody will process it, and the timeout is short but not zero: the one probe that
    /// really waits (30 ms of wall-clock time) - whatever the waiting is built on must exist in the calling context
    FlushPendingShort,
    SendFullShort,
}

fn do_call(call: Call, sender: &Sender<Vec<u32>>) -> Result<(), String> {
    match call {
        Call::FlushEmpty => {
            let r = emit_batcher::blocking_flush(sender, Duration::from_secs(5));
            if r {
                Ok(())
            } else {
                Err("blocking_flush on an empty channel returned false".into())
            }
        }
        Call::FlushZeroPending => {
            sender.send(1);
            let r = emit_batcher::blocking_flush(sender, Duration::ZERO);
            if !r {
                Ok(())
            } else {
                Err("blocking_flush(ZERO) with an item pending and no receiver running returned true".into())
            }
        }
        Call::FlushPendingShort => {
            sender.send(1);
            let t0 = std::time::Instant::now();
            let r = emit_batcher::blocking_flush(sender, Duration::from_millis(30));
            if r {
                Err("blocking_flush(30ms) with an item pending and no receiver running returned true".into())
            } else if t0.elapsed() > Duration::from_secs(20) {
                Err(format!("blocking_flush(30ms) took {:?}", t0.elapsed()))
            } else {
                Ok(())
            }
        }
        Call::SendFullShort => {
            sender.send(1);
            sender.send(2);
            match emit_batcher::blocking_send(sender, 9, Duration::from_millis(30)) {
                Ok(()) => Err("blocking_send(30ms) on a full channel with no receiver running returned Ok".into()),
                Err(e) => {
                    if e.into_retryable() == Some(9) {
                        Ok(())
                    } else {
                        Err("blocking_send(30ms) on a full channel did not hand the item back".into())
                    }
                }
            }
        }
        Call::SendRoom => match emit_batcher::blocking_send(sender, 7, Duration::from_secs(5)) {
            Ok(()) => Ok(()),
            Err(_) => Err("blocking_send with room in the channel failed".into()),
        },
        Call::SendFullZero => {
            sender.send(1);
            sender.send(2);
            let r = match emit_batcher::blocking_send(sender, 9, Duration::ZERO) {
                Ok(()) => Err("blocking_send(ZERO) on a full channel returned Ok".to_string()),
                Err(e) => {
                    if e.into_retryable() == Some(9) {
                        Ok(())
                    } else {
                        Err("blocking_send(ZERO) on a full channel did not hand the item back".to_string())
                    }
                }
            };
            let snap = sender.verif_snapshot();
            if r.is_ok() && snap.pending != 2 {
                Err(format!("blocking_send(ZERO) on a full channel left {} items pending, 2 were queued", snap.pending))
            } else {
                r
            }
        }
    }
}

fn guarded(call: Call, sender: &Sender<Vec<u32>>) -> Result<(), String> {
    match panic::catch_unwind(AssertUnwindSafe(|| do_call(call, sender))) {
        Ok(r) => r,
        Err(_) => Err(format!("panicked: {}", take_last_panic().unwrap_or_default())),
    }
}

impl Engine for CallingContexts {
    fn name(&self) -> &'static str {
        "calling-contexts"
    }

    fn real_vs_stub(&self) -> Value {
        json!({
            "real": ["emit_batcher::{blocking_flush, blocking_send} (the tokio-aware re-exports)", "tokio current-thread and multi-thread runtimes, spawn, spawn_blocking, LocalSet (run_until, spawn_local), block_in_place, Runtime::enter"],
            "simulated": [],
            "not_exercised": ["any path that has to wait: real tokio threads are outside the simulator, so only immediate paths are probed"]
        })
    }

    fn minimise_budget(&self) -> usize {
        40
    }

    fn rule(&self) -> &'static str {
        "deterministic probes: 12 calling contexts x 6 calls (four immediate ones and two that wait 30 ms); no schedule or fault is sampled here (the simulated engines do that); each (context, call) pair is one distinct case"
    }

    fn run(&self, ch: &mut Choices, ctx: &RunCtx) -> Outcome {
        let mut out = Outcome::default();
        let context = ch.choose(12);
        let call = *ch.pick(&[Call::FlushEmpty, Call::FlushZeroPending, Call::SendRoom, Call::SendFullZero, Call::FlushPendingShort, Call::SendFullShort]);
        let (sender, receiver): (Sender<Vec<u32>>, Receiver<Vec<u32>>) = emit_batcher::bounded(2);
        let sender = Arc::new(sender);
        let context_name = ["plain thread", "tokio current-thread runtime", "tokio multi-thread runtime (block_on thread)", "tokio multi-thread worker", "tokio spawn_blocking thread",
            "LocalSet driven by block_on of a multi-thread runtime",
            "spawn_local task in a LocalSet on a multi-thread runtime",
            "LocalSet on a current-thread runtime",
            "block_in_place section on a multi-thread worker",
            "plain thread that entered a multi-thread runtime's context (Runtime::enter)",
            "worker of a multi-thread runtime built without time or IO drivers",
            "block_on thread of a multi-thread runtime built without time or IO drivers",
        ][context as usize];
        let r: Result<(), String> = match context {
            0 => guarded(call, &sender),
            1 => {
                let rt = tokio::runtime::Builder::new_current_thread().enable_all().build().unwrap();
                rt.block_on(async { guarded(call, &sender) })
            }
            2 => {
                let rt = tokio::runtime::Builder::new_multi_thread().worker_threads(1).enable_all().build().unwrap();
                rt.block_on(async { guarded(call, &sender) })
            }
            3 => {
                let rt = tokio::runtime::Builder::new_multi_thread().worker_threads(1).enable_all().build().unwrap();
                let s = sender.clone();
                rt.block_on(async move { tokio::spawn(async move { guarded(call, &s) }).await.unwrap_or_else(|e| Err(format!("task failed: {e}"))) })
            }
            4 => {
                let rt = tokio::runtime::Builder::new_multi_thread().worker_threads(1).enable_all().build().unwrap();
                let s = sender.clone();
                rt.block_on(async move { tokio::task::spawn_blocking(move || guarded(call, &s)).await.unwrap_or_else(|e| Err(format!("task failed: {e}"))) })
            }
            5 => {
                let rt = tokio::runtime::Builder::new_multi_thread().worker_threads(1).enable_all().build().unwrap();
                let local = tokio::task::LocalSet::new();
                rt.block_on(local.run_until(async { guarded(call, &sender) }))
            }
            6 => {
                let rt = tokio::runtime::Builder::new_multi_thread().worker_threads(1).enable_all().build().unwrap();
                let local = tokio::task::LocalSet::new();
                let s = sender.clone();
                rt.block_on(local.run_until(async move {
                    tokio::task::spawn_local(async move { guarded(call, &s) })
                        .await
                        .unwrap_or_else(|e| Err(format!("task failed: {e}")))
                }))
            }
            7 => {
                let rt = tokio::runtime::Builder::new_current_thread().enable_all().build().unwrap();
                let local = tokio::task::LocalSet::new();
                let s = sender.clone();
                rt.block_on(local.run_until(async move {
                    tokio::task::spawn_local(async move { guarded(call, &s) })
                        .await
                        .unwrap_or_else(|e| Err(format!("task failed: {e}")))
                }))
            }
            8 => {
                let rt = tokio::runtime::Builder::new_multi_thread().worker_threads(1).enable_all().build().unwrap();
                let s = sender.clone();
                rt.block_on(async move {
                    tokio::spawn(async move { tokio::task::block_in_place(|| guarded(call, &s)) })
                        .await
                        .unwrap_or_else(|e| Err(format!("task failed: {e}")))
                })
            }
            9 => {
                let rt = tokio::runtime::Builder::new_multi_thread().worker_threads(1).enable_all().build().unwrap();
                let _guard = rt.enter();
                guarded(call, &sender)
            }
            10 => {
                // the caller's runtime is the caller's business: no `enable_time`, no `enable_io`
                let rt = tokio::runtime::Builder::new_multi_thread().worker_threads(1).build().unwrap();
                let s = sender.clone();
                rt.block_on(async move { tokio::spawn(async move { guarded(call, &s) }).await.unwrap_or_else(|e| Err(format!("task failed: {e}"))) })
            }
            _ => {
                let rt = tokio::runtime::Builder::new_multi_thread().worker_threads(1).build().unwrap();
                rt.block_on(async { guarded(call, &sender) })
            }
        };
        drop(receiver);
        let line = format!("{call:?} from {context_name}: {r:?}");
        if let Err(why) = r {
            out.violate("C08", "blocking_call_context", format!("{call:?} from a {context_name}: {why}"));
            if matches!(call, Call::SendRoom | Call::SendFullZero | Call::SendFullShort) {
                // what a blocking send does with the item and the queue is C09's business, wherever it is called from
                out.violate("C09", "blocking_send_context", format!("{call:?} from a {context_name}: {why}"));
            }
        }
        let mut h = Fnv::new();
        h.str(&format!("{context}/{call:?}"));
        out.trace_hash = h.finish();
        out.nontrivial = true;
        out.probe(match context {
            0 => "context_plain_thread",
            1 => "context_tokio_current_thread",
            2 => "context_tokio_multi_thread_block_on",
            3 => "context_tokio_multi_thread_worker",
            4 => "context_tokio_spawn_blocking",
            5 => "context_local_set_multi_thread_block_on",
            6 => "context_local_set_multi_thread_spawn_local",
            7 => "context_local_set_current_thread",
            8 => "context_inside_block_in_place",
            9 => "context_entered_runtime_plain_thread",
            10 => "context_runtime_without_drivers_worker",
            _ => "context_runtime_without_drivers_block_on",
        });
        if ctx.want_trace {
            out.trace.push(line);
        }
        out
    }
}
