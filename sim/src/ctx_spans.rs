//! `ctx` engine, span programs: C04 and C05 over a plain `ThreadLocalCtxt` runtime, C18 over the
//! `emit_traceparent` runtime pieces. The interpreter (real macro expansions, manual guards, lanes)
//! lives in span_interp.inc.rs and is instantiated once per runtime type.

use serde_json::{json, Value as Json};

use crate::{
    choices::Choices,
    core::{Engine, Outcome, RunCtx},
};

/// One instantiation of the interpreter per (runtime kind, way the context is held). The erased
/// variants hold the context as `Arc<dyn ErasedCtxt + Send + Sync>`: every call then goes through
/// the forwarding impls and the erased dispatch that `emit::setup().init()` runtimes use.
macro_rules! span_mod {
    ($name:ident, $tp:expr, $ctxt_ty:ty, $mk:expr, $label:expr) => {
        pub mod $name {
            #[allow(unused_imports)]
            use emit::platform::thread_local_ctxt::ThreadLocalCtxt;
            #[allow(unused_imports)]
            use emit_traceparent::{TraceparentCtxt, TraceparentFilter};

            pub type TheCtxt = $ctxt_ty;
            pub const TP: bool = $tp;
            pub const CTXT_LABEL: &str = $label;

            pub fn mk_ctxt() -> TheCtxt {
                $mk
            }

            fn make_filter(log: &Shared, in_sampled: bool, no_sampler: bool) -> TheFilter {
                use emit::Filter as _;
                if !TP {
                    return Box::new(emit::filter::from_fn(|evt| {
                        use emit::Props as _;
                        if evt.props().pull::<emit::Kind, _>("evt_kind") == Some(emit::Kind::Span) {
                            NEXT_SAMPLE.with(|c| c.get())
                        } else {
                            true
                        }
                    }));
                }
                if no_sampler {
                    return if in_sampled {
                        Box::new(TraceparentFilter::new().and_when(emit_traceparent::in_sampled_trace_filter(true)))
                    } else {
                        Box::new(TraceparentFilter::new())
                    };
                }
                let log = log.clone();
                let sampler = TraceparentFilter::new_with_sampler(move |_: &emit::SpanCtxt| {
                    let decision = NEXT_SAMPLE.with(|c| c.get());
                    lg(&log).items.push(Item::Sampler {
                        strand: cur_strand(),
                        decision,
                    });
                    decision
                });
                if in_sampled {
                    Box::new(sampler.and_when(emit_traceparent::in_sampled_trace_filter(true)))
                } else {
                    Box::new(sampler)
                }
            }

            include!("span_interp.inc.rs");
        }
    };
}

type ErasedArc = std::sync::Arc<dyn emit::ctxt::ErasedCtxt + Send + Sync>;

/// The most minimal context a user of the library can write: only the required methods, the trait's defaults for
/// `open_push` / `open_disabled` (which prepend the new properties to the current ones), properties stored in the
/// order given. A key pushed by an inner frame therefore appears twice, innermost first - which `Props` allows,
/// defining the first value as the one that counts.
pub mod chain {
    use std::{cell::RefCell, collections::HashMap, ops::ControlFlow, sync::atomic::{AtomicUsize, Ordering}};

    use emit::{value::OwnedValue, Ctxt, Props, Str, Value};

    static NEXT_ID: AtomicUsize = AtomicUsize::new(1);

    thread_local! {
        static ACTIVE: RefCell<HashMap<usize, Vec<(String, OwnedValue)>>> = RefCell::new(HashMap::new());
    }

    #[derive(Clone)]
    pub struct ChainCtxt {
        id: usize,
    }

    impl ChainCtxt {
        pub fn new() -> Self {
            ChainCtxt {
                id: NEXT_ID.fetch_add(1, Ordering::Relaxed),
            }
        }
    }

    pub struct ChainProps(Vec<(String, OwnedValue)>);

    impl Props for ChainProps {
        fn for_each<'kv, F: FnMut(Str<'kv>, Value<'kv>) -> ControlFlow<()>>(&'kv self, mut for_each: F) -> ControlFlow<()> {
            for (k, v) in &self.0 {
                for_each(Str::new_ref(k), v.by_ref())?;
            }
            ControlFlow::Continue(())
        }
    }

    impl Ctxt for ChainCtxt {
        type Current = ChainProps;
        type Frame = ChainProps;

        fn open_root<P: Props>(&self, props: P) -> Self::Frame {
            let mut all = Vec::new();
            let _ = props.for_each(|k, v| {
                all.push((k.to_string(), v.to_owned()));
                ControlFlow::Continue(())
            });
            ChainProps(all)
        }

        fn enter(&self, frame: &mut Self::Frame) {
            ACTIVE.with(|a| std::mem::swap(a.borrow_mut().entry(self.id).or_default(), &mut frame.0));
        }

        fn with_current<R, F: FnOnce(&Self::Current) -> R>(&self, with: F) -> R {
            let current = ACTIVE.with(|a| ChainProps(a.borrow().get(&self.id).cloned().unwrap_or_default()));
            with(&current)
        }

        fn exit(&self, frame: &mut Self::Frame) {
            ACTIVE.with(|a| std::mem::swap(a.borrow_mut().entry(self.id).or_default(), &mut frame.0));
        }

        fn close(&self, _: Self::Frame) {}
    }
}

span_mod!(plain, false, ThreadLocalCtxt, ThreadLocalCtxt::new(), "concrete");
span_mod!(tp, true, TraceparentCtxt<ThreadLocalCtxt>, TraceparentCtxt::new(ThreadLocalCtxt::new()), "concrete");
span_mod!(plain_erased, false, super::ErasedArc, std::sync::Arc::new(ThreadLocalCtxt::new()), "erased (Arc<dyn ErasedCtxt + Send + Sync>)");
span_mod!(plain_chain, false, super::chain::ChainCtxt, super::chain::ChainCtxt::new(), "custom minimal context (default open_push, repeated keys)");
span_mod!(
    tp_erased,
    true,
    super::ErasedArc,
    std::sync::Arc::new(TraceparentCtxt::new(ThreadLocalCtxt::new())),
    "erased (Arc<dyn ErasedCtxt + Send + Sync>)"
);

pub struct CtxSpans {
    /// "C04", "C05" or "C18"
    pub focus: &'static str,
}

impl Engine for CtxSpans {
    fn name(&self) -> &'static str {
        match self.focus {
            "C04" => "ctx-spans-tree",
            "C05" => "ctx-spans-completion",
            _ => "ctx-spans-traceparent",
        }
    }

    fn real_vs_stub(&self) -> Json {
        json!({
            "real": ["#[emit::span] on sync / async / Result / guard-parameter functions", "emit::new_span!", "SpanGuard::{new, start, with_*, map_props, complete, complete_with, drop}", "default completion (panic detection, levels)", "SpanCtxt", "Frame / FrameFuture / ThreadLocalCtxt, held concretely or as Arc<dyn ErasedCtxt + Send + Sync> (the erased dispatch and forwarding impls ambient runtimes use)", "emit_traceparent::{TraceparentCtxt, TraceparentFilter, in_sampled_trace_filter, Traceparent::{push,current,to_string,try_from_str}} (C18)", "real thread-locals on real OS threads, real unwinding"],
            "simulated": ["executor (seeded polls on lane threads)", "clock (scripted: forward, equal, backwards, unavailable)", "rng (counter, never repeats)", "emitter (recorder)", "filter decisions / sampler (scripted per span)"],
            "not_exercised": ["tokio or any production executor"]
        })
    }

    fn rule(&self) -> &'static str {
        match self.focus {
            "C04" => "one run = generated span trees (sync fn / async fn / new_span! / Result fn / guard parameter, filter-disabled nodes, events and observations at arbitrary points, incoming ids as typed values or hex text) split over 1-3 tasks plus carried-frame sibling tasks and hand-off threads on 1-3 lanes with a seeded poll order; non-trivial = at least two spans, a suspend or a migration; distinct = distinct history hash",
            "C05" => "one run = generated sequences of guard operations on manual SpanGuards plus macro span forms with all exit paths (fall-through, Err, panic, early complete, cancellation) under scripted clocks (forward, equal, backwards, unavailable); non-trivial = at least two spans; distinct = distinct history hash",
            _ => "one run = generated span trees over the traceparent runtime with a scripted sampler decision per root, incoming headers (sampled, unsampled, invalid, mismatched trace), header propagation into fresh tasks, hand-offs and seeded interleavings; non-trivial = at least two spans, a suspend or a migration; distinct = distinct history hash",
        }
    }

    fn shard_over_processes(&self) -> bool {
        true
    }

    fn run(&self, ch: &mut Choices, ctx: &RunCtx) -> Outcome {
        // a third of the runs hold the context type-erased, the way `emit::setup().init()` runtimes do
        // ... and a sixth of the plain runs use a minimal user-written context instead of ThreadLocalCtxt
        let held = ch.weighted(&[3, 2, 1]); // 0 concrete, 1 erased, 2 custom
        match (self.focus, held) {
            ("C18", 0) | ("C18", 2) => tp::run(ch, ctx, "C18"),
            ("C18", _) => tp_erased::run(ch, ctx, "C18"),
            ("C05", 0) => plain::run(ch, ctx, "C05"),
            ("C05", 1) => plain_erased::run(ch, ctx, "C05"),
            ("C05", _) => plain_chain::run(ch, ctx, "C05"),
            (_, 0) => plain::run(ch, ctx, "C04"),
            (_, 1) => plain_erased::run(ch, ctx, "C04"),
            (_, _) => plain_chain::run(ch, ctx, "C04"),
        }
    }
}
