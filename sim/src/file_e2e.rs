//! `file-e2e` engine: the real `FileSet` (default JSON writer, separator logic, channel,
//! `sync::spawn` worker thread, `blocking_flush`, `And` of two sets) over `simfs` in thread mode.
//! Decides the end-to-end halves of C07 / C08 / C09 (and a no-mangling check for C10) that the
//! channel-level and worker-level engines cannot see.

use std::{
    collections::BTreeSet,
    sync::{Arc, Mutex},
    time::Duration,
};

use emit::Emitter as _;
use emit_file::verif::SimFilesystem as _;
use serde_json::{json, Value as Json};

use crate::{
    choices::Choices,
    core::{history_hash, Engine, Outcome, RunCtx},
    fsim::{parse_own, SimClock, SimRng},
    rng::Rng,
    simfs::{name_of, Fault, OpKind, SimFs},
    simthread::{self, Sched},
};

pub struct FileE2e;

#[derive(Clone, Debug)]
enum Step {
    Emit(usize),
    /// emit events first..first+n back to back, then sample the channel metrics
    Burst(usize, usize),
    Flush(u64),
    Sleep(u64),
}

type ErasedEmitter = Box<dyn emit::emitter::ErasedEmitter + Send + Sync>;

/// The emitter installed in a (private) runtime slot the way an application does it: `emit::setup().emit_to(..)
/// .init_slot(..)`. Events are emitted through the slot's runtime, flushes go through the `Init` handle, and dropping
/// this value drops the handle and then the slot (and with it the emitter).
struct ViaInit<C: emit::Ctxt + 'static> {
    init: Option<emit::setup::Init<'static, ErasedEmitter, C>>,
    /// ... or the handle turned into its flush-on-drop guard, the way `main` functions hold it
    guard: Option<emit::setup::InitGuard<'static, ErasedEmitter, C>>,
    /// called right after the guard has been dropped (and with it, flushed)
    after_guard_drop: Option<Box<dyn Fn() + Send + Sync>>,
    slot: *mut emit::runtime::AmbientSlot,
}

// the raw pointer is only touched in `drop`
unsafe impl<C: emit::Ctxt + 'static> Send for ViaInit<C> where emit::setup::Init<'static, ErasedEmitter, C>: Send {}
unsafe impl<C: emit::Ctxt + 'static> Sync for ViaInit<C> where emit::setup::Init<'static, ErasedEmitter, C>: Sync {}

impl<C: emit::Ctxt + 'static> ViaInit<C> {
    fn handle(&self) -> &emit::setup::Init<'static, ErasedEmitter, C> {
        match (&self.guard, &self.init) {
            (Some(g), _) => g.inner(),
            (None, Some(i)) => i,
            _ => unreachable!("a handle is held until drop"),
        }
    }
}

impl<C: emit::Ctxt + 'static> emit::Emitter for ViaInit<C> {
    fn emit<E: emit::event::ToEvent>(&self, evt: E) {
        self.handle().get().emit(evt)
    }

    fn blocking_flush(&self, timeout: Duration) -> bool {
        self.handle().blocking_flush(timeout)
    }
}

impl<C: emit::Ctxt + 'static> Drop for ViaInit<C> {
    fn drop(&mut self) {
        self.init.take();
        if let Some(g) = self.guard.take() {
            drop(g);
            if let Some(f) = self.after_guard_drop.take() {
                f();
            }
        }
        // SAFETY: made by `Box::into_raw` in `via_init`; the only borrower (the handle) is gone
        unsafe { drop(Box::from_raw(self.slot)) };
    }
}

fn via_init(inner: ErasedEmitter, flush_on_drop: Option<(Duration, Box<dyn Fn() + Send + Sync>)>) -> ErasedEmitter {
    let slot: *mut emit::runtime::AmbientSlot = Box::into_raw(Box::new(emit::runtime::AmbientSlot::new()));
    // SAFETY: the slot lives until `ViaInit::drop`, which drops the handle first
    let slot_ref: &'static emit::runtime::AmbientSlot = unsafe { &*slot };
    let init = emit::setup().emit_to(inner).init_slot(slot_ref);
    match flush_on_drop {
        None => Box::new(ViaInit { init: Some(init), guard: None, after_guard_drop: None, slot }),
        Some((timeout, after)) => Box::new(ViaInit { init: None, guard: Some(init.flush_on_drop(timeout)), after_guard_drop: Some(after), slot }),
    }
}

fn markers_in(data: &[u8]) -> Vec<String> {
    let mut out = Vec::new();
    let mut i = 0;
    while i + 10 <= data.len() {
        if &data[i..i + 2] == b"MK" && &data[i + 8..i + 10] == b"KM" && data[i + 2..i + 8].iter().all(|b| b.is_ascii_digit()) {
            out.push(String::from_utf8_lossy(&data[i..i + 10]).into_owned());
            i += 10;
        } else {
            i += 1;
        }
    }
    out
}

impl Engine for FileE2e {
    fn name(&self) -> &'static str {
        "file-e2e"
    }

    fn real_vs_stub(&self) -> Json {
        json!({
            "real": ["emit_file::FileSet::{emit, blocking_flush, drop}", "default JSON writer and separator logic", "emit_batcher channel (capacity 10 000), sync::spawn worker thread, sync::blocking_flush", "emit_file::Worker", "emit::Emitter::and_to (timeout split)"],
            "simulated": ["filesystem (simfs: every call is a scheduling point, may stall in virtual time, may fail with a retryable error)", "clock, rng", "thread scheduling (baton passing), Condvar / sleep / Instant"],
            "not_exercised": ["StdFilesystem", "non-retryable faults and crashes (see fsim-faults)"]
        })
    }

    fn rule(&self) -> &'static str {
        "one run = 1-2 real file sets (And) over the simulated filesystem, a client thread that emits 1-24 events, flushes with various timeouts, sleeps, and finally flushes and/or drops, with filesystem calls that yield, stall (virtual seconds to an hour) or fail retryably; non-trivial = a stall or fault fired, a flush returned while the worker was mid-batch, or two sets were combined; distinct = distinct history hash"
    }

    fn shard_over_processes(&self) -> bool {
        true
    }

    fn run(&self, ch: &mut Choices, ctx: &RunCtx) -> Outcome {
        // overflow mode: stall the worker for an hour and push more than the channel's 10 000-item capacity through
        let overflow = ch.chance(1, 150);
        let two_sets = !overflow && ch.chance(1, 3);
        let n_events = 1 + ch.choose(if ctx.thorough { 24 } else { 12 }) as usize;
        let fault_budget = match ch.weighted(&[5, 3, 2]) {
            0 => 0,
            1 => 1 + ch.choose(2),
            _ => 3 + ch.choose(3),
        };
        let stall_mode = if overflow { 2 } else { ch.weighted(&[5, 3, 2]) }; // 0 none, 1 short stalls, 2 one very long stall
        let fault_budget = if overflow { 0 } else { fault_budget };
        let reuse = ch.chance(1, 2);
        let writer_kind = if overflow { 0 } else { ch.weighted(&[5, 2, 2, 2, 2, 2]) };
        // how the application holds the emitter: 0 as is, 1 Arc, 2 Option, 3 Wrap, 4/5 And with Empty on either side (And splits the timeout),
        // 6 installed in a runtime slot through `emit::setup()`: events go through the slot's runtime, flushes through the `Init` handle,
        // 7 the same with the handle turned into its flush-on-drop guard (two hours): dropping it is a flush whose result nobody sees
        let holder = ch.weighted(&[4, 1, 1, 1, 1, 1, 2, 2]);
        // builder call order: the writer installed first (`set_with_writer`) or last (`set(..).<options>.writer(..)`)
        let writer_late = writer_kind != 0 && ch.chance(1, 2);
        let max_size = *ch.pick(&[1usize << 30, 300, 120]);
        // (overflow mode: one big file, so retention never deletes what the oracle looks for)
        let max_size = if overflow { 1usize << 30 } else { max_size };
        let mut steps = Vec::new();
        for i in 0..n_events {
            steps.push(Step::Emit(i));
            match ch.weighted(&[10, 3, 3]) {
                0 => {}
                1 => steps.push(Step::Sleep(*ch.pick(&[1u64, 30, 700, 20_000, 20_000, 95_000]))),
                _ => steps.push(Step::Flush(*ch.pick(&[0u64, 5, 400, 60_000, 7_200_000]))),
            }
        }
        let final_flush = overflow || !ch.chance(1, 4);
        // one overflow of the 10 000-event channel, or two or three of them while the worker is still stalled
        let burst = 9_990 + ch.choose(40) as usize + *ch.pick(&[0usize, 0, 10_000, 20_000]);
        if overflow {
            steps = vec![Step::Emit(0), Step::Sleep(10), Step::Burst(1, burst), Step::Sleep(1)];
        }
        let rng_seed = ch.choose(1 << 30) as u64;
        // what an earlier run of the application left behind in set a's directory: a file of the current period holding one
        // complete record and (two times in three) the torn beginning of another - the process died mid-write. With
        // reuse on, the new run appends to it and must first end the torn record with the *configured* separator
        let leftover: Option<bool> = if !overflow && reuse && ch.chance(1, 3) { Some(!ch.chance(1, 3)) } else { None };

        let sched = Sched::new(std::mem::replace(ch, Choices::from_record(&[])), ctx.want_trace, 200_000);
        // running code takes time: consecutive clock readings differ (by a nanosecond), so "elapsed" is never zero
        sched.lock().clock_reading_cost_ns = 1;
        let prev = simthread::enter(&sched);
        sched.log(format!(
            "config: sets={} events={n_events} fault_budget={fault_budget} stall_mode={stall_mode} reuse={reuse} max_size={max_size} final_flush={final_flush} writer_kind={writer_kind} writer_late={writer_late} holder={holder}",
            if two_sets { 2 } else { 1 }
        ));

        let budget = Arc::new(Mutex::new((fault_budget, 0u32, false))); // (faults left, consecutive, long stall used)
        let mk_fs = || {
            let mut fs = SimFs::new();
            let sc = sched.clone();
            let b = budget.clone();
            fs.on_op = Some(Arc::new(move |kind: &OpKind| {
                sc.yield_point("fs_call");
                match stall_mode {
                    1 => {
                        if sc.chance(1, 6) {
                            sc.probe("fs_call_stalled");
                            let d = *sc.lock().choices.pick(&[2u64, 80, 3_000]);
                            sc.sleep(Duration::from_millis(d));
                        }
                    }
                    2 => {
                        let use_it = {
                            let mut g = b.lock().unwrap();
                            if !g.2 && matches!(kind, OpKind::Write | OpKind::SyncAll | OpKind::OpenNew) {
                                g.2 = true;
                                true
                            } else {
                                false
                            }
                        };
                        if use_it {
                            sc.probe("fs_call_stalled_for_an_hour");
                            sc.sleep(Duration::from_secs(3600));
                        }
                    }
                    _ => {}
                }
            }));
            let sc = sched.clone();
            let b = budget.clone();
            fs.fault_fn = Some(Arc::new(move |_idx: u64, kind: &OpKind| {
                // only faults the channel's retry loop recovers from, and never many in a row
                if !matches!(kind, OpKind::CreateDirAll | OpKind::OpenNew | OpKind::OpenExisting | OpKind::Write | OpKind::SyncParent | OpKind::ReadDir | OpKind::Remove) {
                    return None;
                }
                let mut g = b.lock().unwrap();
                if g.0 == 0 || g.1 >= 3 {
                    g.1 = 0;
                    return None;
                }
                if sc.chance(1, 5) {
                    g.0 -= 1;
                    g.1 += 1;
                    sc.probe("fs_fault_injected");
                    Some(if *kind == OpKind::Write && sc.chance(1, 2) { Fault::TornWrite(1, 2) } else { Fault::Err })
                } else {
                    g.1 = 0;
                    None
                }
            }));
            fs
        };
        let clock = SimClock::new(Duration::from_secs(1_716_778_800));
        let fs_a = mk_fs();
        let fs_b = mk_fs();
        // writer variants: 0 default JSON writer; 1 custom, record not terminated (emit must append the separator);
        // 2 custom, record already terminated (emit must not append another); 3 custom with a two-byte separator
        type WriterFn = Box<dyn Fn(&mut emit_file::FileBuf, &emit::Event<&dyn emit::props::ErasedProps>) -> std::io::Result<()> + Send + Sync>;
        let marker_of = |evt: &emit::Event<&dyn emit::props::ErasedProps>| -> String {
            use emit::Props as _;
            evt.props().get("marker").map(|v| v.to_string()).unwrap_or_default()
        };
        let custom: Option<(WriterFn, &'static [u8])> = match writer_kind {
            // record not terminated (emit must append the separator)
            1 => Some((
                Box::new(move |buf, evt| {
                    buf.extend_from_slice(format!("marker={}", marker_of(evt)).as_bytes());
                    Ok(())
                }),
                b"\n",
            )),
            // record already terminated (emit must not append another)
            2 => Some((
                Box::new(move |buf, evt| {
                    buf.extend_from_slice(format!("marker={}\n", marker_of(evt)).as_bytes());
                    Ok(())
                }),
                b"\n",
            )),
            // a two-byte separator
            3 => Some((
                Box::new(move |buf, evt| {
                    buf.extend_from_slice(format!("marker={}", marker_of(evt)).as_bytes());
                    Ok(())
                }),
                b"\r\n",
            )),
            // ends with the LAST byte of the separator only: the full separator must still be appended
            4 => Some((
                Box::new(move |buf, evt| {
                    buf.extend_from_slice(format!("marker={}\n", marker_of(evt)).as_bytes());
                    Ok(())
                }),
                b"\r\n",
            )),
            // fails for every third event AFTER having written part of the record
            5 => Some((
                Box::new(move |buf, evt| {
                    use emit::Props as _;
                    let m = marker_of(evt);
                    let n = evt.props().pull::<i64, _>("n").unwrap_or(0);
                    if n % 3 == 1 {
                        buf.extend_from_slice(b"partial-record-of-a-failed-event:");
                        buf.extend_from_slice(&m.as_bytes()[..4]);
                        return Err(std::io::Error::new(std::io::ErrorKind::Other, "simulated formatting failure"));
                    }
                    buf.extend_from_slice(format!("marker={m}").as_bytes());
                    Ok(())
                }),
                b"\n",
            )),
            _ => None,
        };
        let sep_a: &'static [u8] = if writer_kind == 3 || writer_kind == 4 { b"\r\n" } else { b"\n" };
        let builder_a = match custom {
            None => emit_file::set("logs/a/app.log").reuse_files(reuse).max_file_size_bytes(max_size).roll_by_minute(),
            Some((w, sep)) if writer_late => emit_file::set("logs/a/app.log")
                .reuse_files(reuse)
                .max_file_size_bytes(max_size)
                .roll_by_minute()
                .writer(move |buf, evt| w(buf, evt), sep),
            Some((w, sep)) => emit_file::set_with_writer("logs/a/app.log", move |buf, evt| w(buf, evt), sep)
                .reuse_files(reuse)
                .max_file_size_bytes(max_size)
                .roll_by_minute(),
        };
        let leftover_bytes: Option<Vec<u8>> = leftover.map(|torn| {
            let rec = |m: &str| -> Vec<u8> {
                match writer_kind {
                    0 => format!("{{\"ts\":\"2024-05-27T02:59:58.000000000Z\",\"msg\":\"an event of the earlier run\",\"marker\":\"{m}\",\"n\":0}}").into_bytes(),
                    2 | 4 => format!("marker={m}\n").into_bytes(),
                    _ => format!("marker={m}").into_bytes(),
                }
            };
            let mut body = rec("MK990001KM");
            if !body.ends_with(sep_a) {
                body.extend_from_slice(sep_a);
            }
            if torn {
                let r = rec("MK990002KM");
                // cut inside the record, before its marker is complete
                body.extend_from_slice(&r[..r.len().min(12)]);
            }
            body
        });
        let torn_fragment: Option<Vec<u8>> = match leftover {
            Some(true) => leftover_bytes.as_ref().map(|b| b[b.len() - 12..].to_vec()),
            _ => None,
        };
        if let Some(body) = &leftover_bytes {
            fs_a.seed_file("logs/a/app.2024-05-27-03-00.00000000.0a0b0c0d.log", body, false);
            sched.log(format!("an earlier run left logs/a/app.2024-05-27-03-00.00000000.0a0b0c0d.log behind: {:?}", String::from_utf8_lossy(body)));
        }
        // the production `FileSetBuilder::spawn`, as it is: its constructors for the filesystem, the clock and the random
        // source hand out what is injected here (the earlier hook `verif_spawn_with` was a copy of `spawn`'s body, so an
        // edit to the real one went unseen)
        emit_file::verif::inject(fs_a.clone(), clock.clone(), SimRng(Arc::new(Mutex::new(Rng::new(rng_seed)))));
        let set_a = builder_a.spawn();
        let set_b = if two_sets {
            emit_file::verif::inject(fs_b.clone(), clock.clone(), SimRng(Arc::new(Mutex::new(Rng::new(rng_seed + 1)))));
            Some(emit_file::set("logs/b/other.txt").reuse_files(reuse).spawn())
        } else {
            None
        };
        let worker_tids = sched.tids_by_name("emit_file_worker");

        #[derive(Default)]
        struct ClientLog {
            emitted: Vec<(usize, Duration)>,
            // (#emitted before the call, returned at, timeout ms, result, durable markers at return in set a / b)
            flushes: Vec<(usize, Duration, u64, bool, BTreeSet<String>, BTreeSet<String>)>,
            // after a burst: (queue_length, queue_full_truncated) as sampled from the file set's metrics
            after_burst: Option<(Option<u64>, Option<u64>)>,
        }
        let clog = Arc::new(Mutex::new(ClientLog::default()));
        let durable = |fs: &SimFs| -> BTreeSet<String> {
            let mut s = BTreeSet::new();
            for (_, data) in fs.durable_view() {
                s.extend(markers_in(&data));
            }
            s
        };
        let (client_tid, client_handle) = {
            let sc = sched.clone();
            let clog = clog.clone();
            let clk = clock.clone();
            let fa = fs_a.clone();
            let fb = fs_b.clone();
            sched
                .spawn(
                    "client".into(),
                    Box::new(move || {
                        let durable = |fs: &SimFs| -> BTreeSet<String> {
                            let mut s = BTreeSet::new();
                            for (_, data) in fs.durable_view() {
                                s.extend(markers_in(&data));
                            }
                            s
                        };
                        let metrics = if overflow { Some(set_a.metric_source()) } else { None };
                        type Erased = Box<dyn emit::emitter::ErasedEmitter + Send + Sync>;
                        let inner: Erased = match set_b {
                            Some(b) => Box::new(set_a.and_to(b)),
                            None => Box::new(set_a),
                        };
                        let emitter: Erased = match holder {
                            0 => inner,
                            1 => Box::new(Arc::new(inner)),
                            2 => Box::new(Some(inner)),
                            3 => Box::new(emit::emitter::wrap(
                                inner,
                                emit::emitter::wrapping::from_filter(emit::filter::from_fn(|_| true)),
                            )),
                            4 => Box::new(emit::Empty.and_to(inner)),
                            5 => Box::new(inner.and_to(emit::Empty)),
                            6 => via_init(inner, None),
                            _ => {
                                // the guard's flush has two hours: more than any stall plus a full retry budget, so it
                                // succeeds - except in overflow mode and under an hour-long stall (And hands each side half of the timeout),
                                // where nothing is asserted about it
                                let (sc2, clog2, fa2, fb2) = (sc.clone(), clog.clone(), fa.clone(), fb.clone());
                                // ... and in runs where the scheduler may fire a timer while the worker is runnable (a runnable
                                // thread may be arbitrarily slow: a flush that gives up is then no fault of the code)
                                let assert_it = !overflow && stall_mode != 2 && sc.lock().early_timer_pct == 0;
                                via_init(
                                    inner,
                                    Some((
                                        Duration::from_secs(7200),
                                        Box::new(move || {
                                            let durable = |fs: &SimFs| -> BTreeSet<String> {
                                                let mut s = BTreeSet::new();
                                                for (_, data) in fs.durable_view() {
                                                    s.extend(markers_in(&data));
                                                }
                                                s
                                            };
                                            let (da, db) = (durable(&fa2), durable(&fb2));
                                            sc2.probe("init_guard_dropped");
                                            sc2.log("the InitGuard was dropped: flush on drop (7200 s) returned".into());
                                            if assert_it {
                                                let mut c = clog2.lock().unwrap();
                                                let n = c.emitted.len();
                                                c.flushes.push((n, sc2.now(), 7_200_000, true, da, db));
                                            }
                                        }),
                                    )),
                                )
                            }
                        };
                        let mut emitted = 0usize;
                        let mut do_flush = |emitted: usize, ms: u64| {
                            let t0 = sc.now();
                            let r = simthread::with_deadline(&sc, Duration::from_millis(ms), || emitter.blocking_flush(Duration::from_millis(ms)));
                            let t1 = sc.now();
                            // what a crash right now would leave on disk
                            let (da, db) = (durable(&fa), durable(&fb));
                            sc.log(format!("blocking_flush({ms}ms) -> {r} after {:?}", t1 - t0));
                            if std::env::var_os("VSIM_DEBUG_THREADS").is_some() {
                                for t in sc.tids_by_name("emit_file_worker") {
                                    sc.log(format!("  debug: worker thread {t} state={}", sc.thread_state_debug(t)));
                                }
                            }
                            clog.lock().unwrap().flushes.push((emitted, t1, ms, r, da, db));
                        };
                        for step in steps {
                            if sc.aborted() {
                                return;
                            }
                            match step {
                                Step::Emit(i) => {
                                    let marker = format!("MK{:06}KM", i + 1);
                                    let ts = emit::Timestamp::from_unix(*clk.0.lock().unwrap()).unwrap();
                                    let props = [("marker", emit::Value::from(marker.as_str())), ("n", emit::Value::from(i as i64))];
                                    let evt = emit::Event::new(
                                        emit::path!("sim::file"),
                                        emit::Template::literal("simulated event"),
                                        emit::Extent::point(ts),
                                        &props[..],
                                    );
                                    sc.set_nonblocking(Some("FileSet::emit"));
                                    emitter.emit(&evt);
                                    sc.set_nonblocking(None);
                                    emitted += 1;
                                    clog.lock().unwrap().emitted.push((i, sc.now()));
                                    sc.log(format!("emitted {marker}"));
                                }
                                Step::Burst(first, n) => {
                                    let ts = emit::Timestamp::from_unix(*clk.0.lock().unwrap()).unwrap();
                                    sc.set_nonblocking(Some("FileSet::emit"));
                                    // memory: what the first 5 000 events of the burst cost is what half a full queue
                                    // costs (plus this harness's own bookkeeping per event); however many events
                                    // follow, the channel holds at most 10 000 of them
                                    // (only where the worker is stalled in one filesystem call from the first to the last
                                    // event of the burst: what it writes lives in the simulated disk, which is memory too)
                                    let fs_ops0 = fa.op_count() + fb.op_count();
                                    let live0 = crate::core::live_bytes();
                                    let mut live_5000 = live0;
                                    let filler = "x".repeat(400);
                                    for i in first..first + n {
                                        if i == first + 5_000 {
                                            live_5000 = crate::core::live_bytes();
                                        }
                                        if (i - first) % 2_500 == 0 && std::env::var_os("VSIM_DEBUG_THREADS").is_some() {
                                            sc.log(format!("  debug: after {} burst events {} bytes live (+{})", i - first, crate::core::live_bytes(), crate::core::live_bytes() - live0));
                                        }
                                        let marker = format!("MK{:06}KM", i + 1);
                                        let props = [("marker", emit::Value::from(marker.as_str())), ("filler", emit::Value::from(filler.as_str()))];
                                        let evt = emit::Event::new(
                                            emit::path!("sim::file"),
                                            emit::Template::literal("burst"),
                                            emit::Extent::point(ts),
                                            &props[..],
                                        );
                                        emitter.emit(&evt);
                                        emitted += 1;
                                        clog.lock().unwrap().emitted.push((i, sc.now()));
                                    }
                                    sc.set_nonblocking(None);
                                    let live_end = crate::core::live_bytes();
                                    let (half_queue, total) = (live_5000 - live0, live_end - live0);
                                    sc.log(format!("burst of {n} events emitted"));
                                    if n >= 9_000 && half_queue > 0 && fa.op_count() + fb.op_count() != fs_ops0 {
                                        sc.probe("burst_overlapped_worker_progress_memory_not_judged");
                                    } else if n >= 9_000 && half_queue > 0 {
                                        sc.probe("memory_measured_over_a_burst");
                                        if n > 20_000 {
                                            sc.probe("channel_overflowed_more_than_once_while_stalled");
                                        }
                                        let bound = half_queue * 22 / 10 + 3_000_000;
                                        if total > bound {
                                            sc.violate(
                                                "C09",
                                                "memory_grows_with_discarded_events",
                                                format!(
                                                    "a burst of {n} events into a stalled file set left {total} more bytes allocated; the first 5000 of them (half a full queue) cost {half_queue} bytes, so a queue that never holds more than 10 000 events accounts for at most {bound}"
                                                ),
                                            );
                                        }
                                    }
                                    if let Some(m) = &metrics {
                                        use emit::metric::Source as _;
                                        let got: Mutex<(Option<u64>, Option<u64>)> = Mutex::new((None, None));
                                        m.sample_metrics(emit::metric::sampler::from_fn(|metric| {
                                            let v = metric.value().to_string().parse::<u64>().ok();
                                            if metric.name() == "file_queue_length" {
                                                got.lock().unwrap().0 = v;
                                            }
                                            if metric.name() == "file_queue_full_truncated" {
                                                got.lock().unwrap().1 = v;
                                            }
                                        }));
                                        let g = *got.lock().unwrap();
                                        sc.log(format!("after burst: queue_length={:?} queue_full_truncated={:?}", g.0, g.1));
                                        clog.lock().unwrap().after_burst = Some(g);
                                    }
                                }
                                Step::Sleep(ms) => {
                                    sc.sleep(Duration::from_millis(ms));
                                    *clk.0.lock().unwrap() += Duration::from_millis(ms);
                                }
                                Step::Flush(ms) => do_flush(emitted, ms),
                            }
                            sc.yield_point("client_step");
                        }
                        if final_flush {
                            do_flush(emitted, 36_000_000);
                        }
                        sc.log("dropping the file set(s)".into());
                        drop(emitter);
                    }),
                )
                .expect("spawn client")
        };

        let mut aborted = sched.join(client_tid).is_err();
        let dropped_at = sched.now();
        for t in &worker_tids {
            if !aborted {
                aborted = sched.join(*t).is_err();
            }
        }
        let done_at = sched.now();
        simthread::leave(prev);
        let (why, sched_violations, probes, steps_n, switches, trace, now) = {
            let mut st = sched.lock();
            (
                st.aborted.clone(),
                std::mem::take(&mut st.violations),
                std::mem::take(&mut st.probes),
                st.steps,
                st.switches,
                std::mem::take(&mut st.trace),
                st.now,
            )
        };
        std::mem::swap(ch, &mut sched.lock().choices);
        if !aborted {
            let _ = client_handle.join();
        } else {
            std::mem::forget(client_handle);
        }

        let mut out = Outcome::default();
        for (p, r, d) in sched_violations {
            out.violate(p, r, d);
        }
        if let Some(why) = &why {
            out.violate(
                "C08",
                if why.starts_with("deadlock") { "deadlock" } else { "no_progress" },
                format!("file-e2e run aborted: {why}"),
            );
        }
        let cl = clog.lock().unwrap();
        if why.is_none() {
            let all: Vec<String> = cl.emitted.iter().map(|(i, _)| format!("MK{:06}KM", i + 1)).collect();
            // events the (failing) custom writer of set a refuses: they are discarded there, by design
            let failed_a: BTreeSet<String> = cl
                .emitted
                .iter()
                .filter(|(i, _)| writer_kind == 5 && *i % 3 == 1)
                .map(|(i, _)| format!("MK{:06}KM", i + 1))
                .collect();
            // C07: flush true => everything emitted before it is written AND synced, in every set
            for (n_before, at, ms, ok, da, db) in &cl.flushes {
                if !*ok || cl.after_burst.is_some() {
                    continue;
                }
                out.probe("flush_returned_true");
                for m in all.iter().take(*n_before) {
                    let missing_a = !da.contains(m) && !failed_a.contains(m);
                    let missing_b = two_sets && !db.contains(m);
                    if missing_a || missing_b {
                        out.violate(
                            "C07",
                            "flush_true_but_not_synced",
                            format!(
                                "blocking_flush({ms}ms) returned true at {at:?} but event {m}, emitted before the call, is not in synced file content of set {}",
                                if missing_a { "a" } else { "b" }
                            ),
                        );
                    }
                }
            }
            // C08: after the drop the workers drained what was queued and terminated
            // (written is what C08 asks for; whether it is also synced is C07 / C10's business)
            let written = |fs: &SimFs| -> BTreeSet<String> {
                let mut s = BTreeSet::new();
                for (_, data, _, _) in fs.current_view() {
                    s.extend(markers_in(&data));
                }
                s
            };
            let (fa, fb) = (written(&fs_a), written(&fs_b));
            let _ = &durable;
            let mut exempt: BTreeSet<String> = BTreeSet::new();
            if let Some((ql, tr)) = cl.after_burst {
                out.probe("channel_overflow_mode");
                let (ql, tr) = (ql.unwrap_or(u64::MAX), tr.unwrap_or(u64::MAX));
                let n = all.len() as u64;
                if ql > 10_000 {
                    out.violate("C09", "capacity_exceeded", format!("the file set's channel holds {ql} events, capacity is 10 000"));
                }
                // the last `ql` emitted events are the queue: they must all come out; older ones may only be missing
                // if a truncation was counted, and at most capacity per truncation
                let missing: Vec<&String> = all.iter().filter(|m| !fa.contains(*m)).collect();
                let queue_start = (n.saturating_sub(ql)) as usize;
                for m in &missing {
                    let idx = all.iter().position(|x| x == *m).unwrap();
                    if idx >= queue_start {
                        out.violate(
                            "C09",
                            "queued_event_lost",
                            format!("event {m} was among the {ql} events pending after the burst but never reached a file ({tr} truncations counted)"),
                        );
                    }
                    exempt.insert((*m).clone());
                }
                if tr == 0 && !missing.is_empty() {
                    out.violate("C09", "uncounted_drop", format!("{} events are missing although queue_full_truncated is 0", missing.len()));
                }
                if missing.len() as u64 > tr.saturating_mul(10_000) {
                    out.violate("C09", "uncounted_drop", format!("{} events are missing, {tr} truncations of at most 10 000 were counted", missing.len()));
                }
                if tr > 0 {
                    out.probe("channel_overflow_truncated");
                }
            }
            for m in &all {
                if exempt.contains(m) {
                    continue;
                }
                if (!fa.contains(m) && !failed_a.contains(m)) || (two_sets && !fb.contains(m)) {
                    out.violate(
                        "C08",
                        "lost_on_drop",
                        format!("the file set was dropped at {dropped_at:?} and its worker terminated at {done_at:?}, but event {m} was never written"),
                    );
                }
            }
            // C10: no record holds bytes of two events
            for fs in [&fs_a, &fs_b] {
                for (path, data, _, _) in fs.current_view() {
                    if parse_own(&name_of(&path), "app", "log", emit_file::verif::Roll::Minute).is_none()
                        && parse_own(&name_of(&path), "other", "txt", emit_file::verif::Roll::Hour).is_none()
                    {
                        out.violate("C11", "unexpected_file", format!("file {path} does not belong to either set"));
                    }
                    // C06 through the file emitter: one client emits in marker order, a file is only ever appended to by
                    // one batch at a time and abandoned after a failed write, so within a file the events keep their order
                    // and none appears twice
                    let in_file: Vec<String> = markers_in(&data).into_iter().filter(|m| !m.starts_with("MK99")).collect();
                    if let Some(w) = in_file.windows(2).find(|w| w[0] >= w[1]) {
                        out.violate(
                            "C06",
                            "file_record_order",
                            format!("in {path} event {} is followed by {}: emitted order is not kept (or an event is written twice)", w[0], w[1]),
                        );
                    }
                    for line in data.split(|b| *b == b'\n') {
                        if markers_in(line).len() > 1 {
                            out.violate(
                                "C10",
                                "mangled_record",
                                format!("a record in {path} holds more than one event: {:?}", String::from_utf8_lossy(line)),
                            );
                        }
                    }
                }
            }
            // C11 through the builder: the configured size limit reaches the worker. Two events with a successful flush
            // between them were written by different batches; the later batch may only have been appended to the file
            // of the earlier one if it fitted under the limit, so its events end at or below the limit
            if cl.after_burst.is_none() {
                let index_of = |m: &str| -> Option<usize> { m[2..8].parse::<usize>().ok().map(|n| n - 1) };
                for (path, data, _, _) in fs_a.current_view() {
                    let mut found: Vec<(usize, usize)> = Vec::new(); // (event index, end offset of its marker)
                    let mut i = 0;
                    while i + 10 <= data.len() {
                        if &data[i..i + 2] == b"MK" && &data[i + 8..i + 10] == b"KM" && data[i + 2..i + 8].iter().all(|b| b.is_ascii_digit()) {
                            if let Some(ix) = index_of(&String::from_utf8_lossy(&data[i..i + 10])) {
                                found.push((ix, i + 10));
                            }
                            i += 10;
                        } else {
                            i += 1;
                        }
                    }
                    for w in found.windows(2) {
                        let ((a, _), (b, end_b)) = (w[0], w[1]);
                        // positions in the emit sequence (events are emitted in index order by one client)
                        let (pa, pb) = (
                            cl.emitted.iter().position(|(i, _)| *i == a),
                            cl.emitted.iter().position(|(i, _)| *i == b),
                        );
                        let (Some(pa), Some(pb)) = (pa, pb) else { continue };
                        let flushed_between = cl.flushes.iter().any(|(n_before, _, _, ok, _, _)| *ok && *n_before > pa && *n_before <= pb);
                        if flushed_between && end_b > max_size {
                            out.violate(
                                "C11",
                                "size_limit_ignored",
                                format!(
                                    "{path}: event MK{:06}KM was appended by a later batch than MK{:06}KM (a flush returned true in between) although it ends at byte {end_b}, past max_file_size_bytes = {max_size}",
                                    b + 1,
                                    a + 1
                                ),
                            );
                        }
                    }
                }
            }
            // separator logic on the emitting side: exactly one separator after every record
            let faults_fired = out.probes.contains_key("fs_fault_injected") || budget.lock().unwrap().0 != fault_budget;
            // a reused leftover: what the earlier run wrote is still there, and if it ended in a torn record the first
            // thing appended is the configured separator, so the torn record and the first new event stay two records
            if let Some(body) = &leftover_bytes {
                for (path, data, _, _) in fs_a.current_view() {
                    if !path.ends_with("app.2024-05-27-03-00.00000000.0a0b0c0d.log") {
                        continue;
                    }
                    if !data.starts_with(body) {
                        out.violate("C10", "leftover_file_damaged", format!("{path} no longer starts with what the earlier run left in it"));
                    } else if data.len() > body.len() {
                        out.probe("leftover_file_reused");
                        if !body.ends_with(sep_a) {
                            out.probe("leftover_file_with_torn_tail_reused");
                            if !data[body.len()..].starts_with(sep_a) && !faults_fired {
                                out.violate(
                                    "C10",
                                    "mangled_record",
                                    format!(
                                        "{path} was reused after a torn record, but what was appended does not begin with the separator {:?}: {:?}",
                                        String::from_utf8_lossy(sep_a),
                                        String::from_utf8_lossy(&data[body.len()..(body.len() + 24).min(data.len())])
                                    ),
                                );
                            }
                        }
                    }
                }
            }
            for (path, data, _, _) in fs_a.current_view() {
                let is_leftover = leftover_bytes.is_some() && path.ends_with("app.2024-05-27-03-00.00000000.0a0b0c0d.log");
                if is_leftover && leftover_bytes.as_deref() == Some(&data[..]) {
                    // never reused (another period by the time of the first batch): still as the earlier run left it
                    continue;
                }
                let mut rest: &[u8] = &data;
                let mut records: Vec<&[u8]> = Vec::new();
                while !rest.is_empty() {
                    match rest.windows(sep_a.len()).position(|w| w == sep_a) {
                        Some(p) => {
                            records.push(&rest[..p]);
                            rest = &rest[p + sep_a.len()..];
                        }
                        None => {
                            records.push(rest);
                            rest = &[];
                            if !faults_fired {
                                out.violate("C10", "record_not_terminated", format!("{path} does not end with the separator"));
                            }
                        }
                    }
                }
                for r in records {
                    if torn_fragment.as_deref() == Some(r) {
                        // the torn record the earlier run left behind, ended by the recovery separator
                        continue;
                    }
                    if writer_kind != 0 && !r.is_empty() {
                        // custom writers: byte-identical records
                        let ms = markers_in(r);
                        let want: Option<Vec<u8>> = ms.first().map(|m| {
                            let mut w = format!("marker={m}").into_bytes();
                            if writer_kind == 4 {
                                w.push(b'\n');
                            }
                            w
                        });
                        if want.as_deref() != Some(r) && !faults_fired {
                            out.violate(
                                "C10",
                                "record_not_byte_identical",
                                format!("a record in {path} is {:?}, not the bytes the writer produced for one event", String::from_utf8_lossy(r)),
                            );
                        }
                    }
                    let n = markers_in(r).len();
                    if n > 1 {
                        out.violate("C10", "mangled_record", format!("a record in {path} holds {n} events: {:?}", String::from_utf8_lossy(r)));
                    }
                    // (a reused file begins its new life with a separator, whether or not the earlier run ended cleanly:
                    // the worker does not read what is there)
                    if n == 0 && !faults_fired && !(is_leftover && r.is_empty()) {
                        out.violate(
                            "C10",
                            "spurious_empty_record",
                            format!("{path} holds a record without an event ({:?}) although no fault was injected: a separator was written twice", String::from_utf8_lossy(r)),
                        );
                    }
                }
            }
        }
        for (k, v) in probes {
            *out.probes.entry(k).or_insert(0) += v;
        }
        if two_sets {
            out.probe("two_sets_combined");
        }
        out.probes.insert("thread_switches", switches);
        out.steps = steps_n;
        out.sim_time_ns = now.as_nanos();
        out.trace_hash = history_hash(trace.iter());
        out.nontrivial = two_sets || out.probes.contains_key("fs_call_stalled") || out.probes.contains_key("fs_fault_injected") || out.probes.contains_key("fs_call_stalled_for_an_hour");
        if ctx.want_trace {
            out.trace = trace;
        }
        out
    }
}
