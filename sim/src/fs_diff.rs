//! `fsim-realfs`: model fidelity. The same fault-free plan is executed twice through the real
//! `Worker` - once over the simulated filesystem, once over the production `StdFilesystem` /
//! `StdFile` in a scratch directory on the real disk - with the same injected clock and rng, so
//! both must produce the same file names, the same bytes and the same per-batch outcomes after
//! every step. A divergence means either that the simulated filesystem misrepresents the real
//! one (every C10/C11 verdict rests on it) or that the production filesystem layer, which the
//! simulation replaces wholesale, has a defect of its own.

use std::{
    collections::BTreeMap,
    panic::{self, AssertUnwindSafe},
    path::{Path, PathBuf},
    sync::{
        atomic::{AtomicU64, Ordering},
        Arc, Mutex,
    },
    time::Duration,
};

use emit_file::verif::{Batch, DirectWorker, SimFilesystem, StdFs};
use serde_json::{json, Value};

use crate::{
    choices::Choices,
    core::{take_last_panic, Engine, Outcome, RunCtx},
    fsim::{gen_plan, Plan, SimClock, SimRng, Step},
    rng::{Fnv, Rng},
    simfs::{name_of, parent_of, SimFs},
};

pub struct FsDiff;

/// What one step left behind: the batch outcome and every (UTF-8 named) file of the directory with its content.
#[derive(Debug, Clone, PartialEq)]
struct StepObs {
    outcome: String,
    files: BTreeMap<String, Vec<u8>>,
}

/// The seeded rng of the plan, or one that always returns the same bytes: `emit::Rng` promises no uniqueness,
/// and two files of one period created in the same millisecond then get the same name.
#[derive(Clone)]
enum PlanRng {
    Seeded(SimRng),
    Constant,
}

impl emit::Rng for PlanRng {
    fn fill<A: AsMut<[u8]>>(&self, mut arr: A) -> Option<A> {
        match self {
            PlanRng::Seeded(r) => r.fill(arr),
            PlanRng::Constant => {
                for b in arr.as_mut() {
                    *b = 0x5a;
                }
                Some(arr)
            }
        }
    }
}

fn run_plan<F: SimFilesystem>(
    plan: &Plan,
    constant_rng: bool,
    two_writers: bool,
    fs: &dyn Fn() -> F,
    worker_dir: String,
    snapshot: &dyn Fn() -> BTreeMap<String, Vec<u8>>,
) -> Vec<StepObs> {
    let cfg = &plan.cfg;
    let clock = SimClock::with_read_cost(plan.start, plan.read_cost);
    let rng = if constant_rng {
        PlanRng::Constant
    } else {
        PlanRng::Seeded(SimRng(Arc::new(Mutex::new(Rng::new(plan.rng_seed)))))
    };
    let new_worker = || {
        DirectWorker::new(
            fs(),
            clock.clone(),
            rng.clone(),
            worker_dir.clone(),
            cfg.lib_prefix.clone(),
            cfg.lib_ext.clone(),
            cfg.roll,
            cfg.reuse,
            cfg.max_files,
            cfg.max_size,
            cfg.sep,
        )
    };
    let mut worker = new_worker();
    // a second writer over the same template, alive at the same time (another process of the same application, or
    // a replaced FileSet whose predecessor still writes): every other batch goes through it
    let mut other: Option<DirectWorker> = None;
    let mut batch_no = 0u32;
    let mut obs = vec![StepObs {
        outcome: "initial".into(),
        files: snapshot(),
    }];
    for step in &plan.steps {
        match step {
            Step::Restart => {
                worker = new_worker();
                other = None;
                obs.push(StepObs {
                    outcome: "restart".into(),
                    files: snapshot(),
                });
            }
            Step::Batch { advance_ms, cleared, events } => {
                {
                    let mut c = clock.0.lock().unwrap();
                    if *advance_ms >= 0 {
                        *c += Duration::from_millis(*advance_ms as u64);
                    } else {
                        *c = c.saturating_sub(Duration::from_millis((-*advance_ms) as u64));
                    }
                }
                let mut batch = Batch::new();
                if !cleared.is_empty() {
                    for e in cleared {
                        batch.push(e.clone());
                    }
                    batch.clear();
                }
                for e in events {
                    batch.push(e.clone());
                }
                let mut next = Some(batch);
                let mut attempts = 0;
                let mut outcome = String::from("gave_up");
                batch_no += 1;
                let through_other = two_writers && batch_no % 2 == 0;
                if through_other && other.is_none() {
                    other = Some(new_worker());
                }
                while let Some(b) = next.take() {
                    attempts += 1;
                    let w: &mut DirectWorker = if through_other { other.as_mut().unwrap() } else { &mut worker };
                    match panic::catch_unwind(AssertUnwindSafe(|| w.on_batch(b))) {
                        Ok(Ok(())) => outcome = "ok".into(),
                        Ok(Err(None)) => outcome = "failed_no_retry".into(),
                        Ok(Err(Some(rem))) => {
                            if attempts <= plan.retries {
                                next = Some(rem);
                            }
                        }
                        Err(_) => outcome = format!("panicked: {}", take_last_panic().unwrap_or_default()),
                    }
                }
                obs.push(StepObs {
                    outcome: format!("{outcome} after {attempts} attempt(s){}", if through_other { " (second writer)" } else { "" }),
                    files: snapshot(),
                });
            }
        }
    }
    obs
}

static SCRATCH_SEQ: AtomicU64 = AtomicU64::new(0);

struct Scratch(PathBuf);

impl Scratch {
    fn new() -> Self {
        let base = std::env::var_os("VERIF_SCRATCH").map(PathBuf::from).unwrap_or_else(std::env::temp_dir);
        let p = base.join(format!("vsim-realfs-{}-{}", std::process::id(), SCRATCH_SEQ.fetch_add(1, Ordering::Relaxed)));
        let _ = std::fs::remove_dir_all(&p);
        std::fs::create_dir_all(&p).expect("scratch directory");
        Scratch(p)
    }
}

impl Drop for Scratch {
    fn drop(&mut self) {
        let _ = std::fs::remove_dir_all(&self.0);
    }
}

fn describe(files: &BTreeMap<String, Vec<u8>>) -> String {
    files.iter().map(|(n, d)| format!("{n} ({} bytes)", d.len())).collect::<Vec<_>>().join(", ")
}

impl Engine for FsDiff {
    fn name(&self) -> &'static str {
        "fsim-realfs"
    }

    fn real_vs_stub(&self) -> Value {
        json!({
            "real": ["emit_file Worker (rolling, naming, retention, reuse, recovery separator)", "StdFilesystem / StdFile on the real disk (create_dir_all, read_dir + metadata, create_new/append opens, write, flush, sync_all, directory sync, remove)"],
            "simulated": ["clock, rng (so both executions produce the same names)", "the second execution's filesystem (SimFs) - the thing being compared"],
            "not_exercised": ["faults: the real disk cannot be made to fail on demand; fault behaviour is SimFs-only"]
        })
    }

    fn rule(&self) -> &'static str {
        "one run = one generated fault-free plan (configuration x pre-existing directory x clock trajectory x batch history with restarts, same generator as fsim-rolling) executed over SimFs and over StdFilesystem in a scratch directory; directory contents and batch outcomes compared after every step; non-trivial = at least two files existed at some point or a file was deleted; distinct = distinct plan hash"
    }

    fn run(&self, ch: &mut Choices, ctx: &RunCtx) -> Outcome {
        let mut out = Outcome::default();
        // the comparison serves whichever of the two filesystem properties is being checked
        let prop: &'static str = if ctx.property == "C10" { "C10" } else { "C11" };
        let mode = if ch.chance(1, 4) { "C10" } else { "C11" };
        let plan = gen_plan(ch, mode, ctx.thorough);
        let constant_rng = ch.chance(1, 4);
        let two_writers = plan.cfg.reuse && ch.chance(1, 3);
        let cfg = &plan.cfg;

        // --- simulated
        let sim = SimFs::new();
        let sim_path = |name: &str| if cfg.dir.is_empty() { name.to_string() } else { format!("{}/{}", cfg.dir, name) };
        for (name, body, foreign) in &plan.existing {
            sim.seed_file(&sim_path(name), body, *foreign);
        }
        if plan.raw_stranger {
            let mut raw = cfg.prefix.as_bytes().to_vec();
            raw.extend_from_slice(b"-caf\xe9.");
            raw.extend_from_slice(cfg.ext.as_bytes());
            sim.lock().raw_entries.push((cfg.dir.clone(), raw));
            sim.lock().raw_entries.push((cfg.dir.clone(), b"\xff\xfe".to_vec()));
        }
        let sim_obs = {
            let sim2 = sim.clone();
            let dir = cfg.dir.clone();
            let snap = move || -> BTreeMap<String, Vec<u8>> {
                sim2.current_view()
                    .into_iter()
                    .filter(|(p, _, _, _)| parent_of(p) == dir)
                    .map(|(p, d, _, _)| (name_of(&p), d))
                    .collect()
            };
            run_plan(&plan, constant_rng, two_writers, &|| sim.clone(), cfg.raw_dir.clone(), &snap)
        };

        // --- real
        let scratch = Scratch::new();
        let real_dir: PathBuf = scratch.0.join(&cfg.raw_dir);
        if !plan.existing.is_empty() || plan.raw_stranger {
            std::fs::create_dir_all(&real_dir).expect("create scratch subdirectory");
        }
        for (name, body, _) in &plan.existing {
            std::fs::write(real_dir.join(name), body).expect("seed file");
        }
        if plan.raw_stranger {
            use std::os::unix::ffi::OsStrExt;
            let mut raw = cfg.prefix.as_bytes().to_vec();
            raw.extend_from_slice(b"-caf\xe9.");
            raw.extend_from_slice(cfg.ext.as_bytes());
            let _ = std::fs::write(real_dir.join(std::ffi::OsStr::from_bytes(&raw)), b"stranger");
            let _ = std::fs::write(real_dir.join(std::ffi::OsStr::from_bytes(b"\xff\xfe")), b"stranger");
            // a directory whose name looks like a member of the set: listings must skip it
            let _ = std::fs::create_dir_all(real_dir.join(format!("{}.2024-05-27.00000001.0badc0de.{}", cfg.prefix, cfg.ext)));
        }
        // a symbolic link named like the newest member of the set (current period, highest counter), pointing at a
        // regular file outside the log directory: not a file of the set, whatever it is called
        let foreign_target = scratch.0.join("__elsewhere__").join("ledger.dat");
        let link_name = format!("{}.{}.99999999.ffffffff.{}", cfg.prefix, crate::fsim::period_of(cfg.roll, plan.start).0, cfg.ext);
        let with_link = ch.chance(1, 3);
        if with_link {
            std::fs::create_dir_all(&real_dir).expect("create scratch subdirectory");
            std::fs::create_dir_all(foreign_target.parent().unwrap()).expect("foreign directory");
            std::fs::write(&foreign_target, b"ledger of somebody else\n").expect("foreign file");
            std::os::unix::fs::symlink(&foreign_target, real_dir.join(&link_name)).expect("symlink");
        }
        let real_obs = {
            let dir = real_dir.clone();
            let snap = move || -> BTreeMap<String, Vec<u8>> {
                let mut m = BTreeMap::new();
                if let Ok(rd) = std::fs::read_dir(&dir) {
                    for e in rd.flatten() {
                        let is_file = e.metadata().map(|m| m.is_file()).unwrap_or(false);
                        if let (true, Some(name)) = (is_file, e.file_name().to_str()) {
                            m.insert(name.to_string(), std::fs::read(e.path()).unwrap_or_default());
                        }
                    }
                }
                m
            };
            run_plan(&plan, constant_rng, two_writers, &|| StdFs, path_str(&real_dir), &snap)
        };
        if with_link {
            out.probe("member_named_symlink_to_a_foreign_file");
            let target_now = std::fs::read(&foreign_target).unwrap_or_default();
            if target_now != b"ledger of somebody else\n" {
                out.violate(
                    prop,
                    "foreign_file_touched_through_symlink",
                    format!("the file behind the symbolic link {link_name} (outside the log directory) was changed to {:?}", String::from_utf8_lossy(&target_now)),
                );
            }
            if std::fs::symlink_metadata(real_dir.join(&link_name)).is_err() {
                out.violate(prop, "foreign_file_touched_through_symlink", format!("the symbolic link {link_name} was deleted by the file set"));
            }
        }
        drop(scratch);

        // --- compare
        let mut max_files_seen = 0;
        let mut deleted = false;
        for (i, (s, r)) in sim_obs.iter().zip(real_obs.iter()).enumerate() {
            max_files_seen = max_files_seen.max(s.files.len());
            if i > 0 && sim_obs[i - 1].files.keys().any(|k| !s.files.contains_key(k)) {
                deleted = true;
            }
            if ctx.want_trace {
                out.trace.push(format!("step {i}: sim [{}] {} | real [{}] {}", s.outcome, describe(&s.files), r.outcome, describe(&r.files)));
            }
            if s.outcome != r.outcome {
                out.violate(
                    prop,
                    "simfs_vs_stdfs_divergence",
                    format!("step {i} (template {}): the batch ended `{}` over the simulated filesystem but `{}` over the real one", cfg.template, s.outcome, r.outcome),
                );
                break;
            }
            if s.files != r.files {
                let only_sim: Vec<&String> = s.files.keys().filter(|k| !r.files.contains_key(*k)).collect();
                let only_real: Vec<&String> = r.files.keys().filter(|k| !s.files.contains_key(*k)).collect();
                let differ: Vec<&String> = s.files.iter().filter(|(k, v)| r.files.get(*k).map(|rv| rv != *v).unwrap_or(false)).map(|(k, _)| k).collect();
                out.violate(
                    prop,
                    "simfs_vs_stdfs_divergence",
                    format!(
                        "step {i} (template {}): directory contents differ between the simulated and the real filesystem: only simulated {only_sim:?}, only real {only_real:?}, different bytes {differ:?}",
                        cfg.template
                    ),
                );
                break;
            }
        }
        if sim_obs.len() != real_obs.len() {
            out.violate(prop, "simfs_vs_stdfs_divergence", "the two executions have different lengths".to_string());
        }
        let mut h = Fnv::new();
        h.str(&format!("{plan:?} {constant_rng} {two_writers}"));
        for s in &sim_obs {
            h.str(&s.outcome);
            for (n, d) in &s.files {
                h.str(n);
                h.bytes(d);
            }
        }
        out.trace_hash = h.finish();
        out.nontrivial = max_files_seen >= 2 || deleted;
        out.steps = sim_obs.len() as u64;
        out.probe("plan_executed_on_the_real_filesystem");
        if deleted {
            out.probe("real_filesystem_retention_delete");
        }
        if plan.raw_stranger {
            out.probe("real_non_utf8_names_and_lookalike_directory");
        }
        if two_writers {
            out.probe("two_live_writers_over_one_template");
        }
        if constant_rng {
            out.probe("constant_rng");
            if sim_obs.iter().any(|o| o.outcome.starts_with("gave_up")) {
                out.probe("file_name_collision_refused");
            }
        }
        out
    }
}

fn path_str(p: &Path) -> String {
    p.to_str().expect("scratch paths are UTF-8").to_string()
}
