//! `fsim` engine: the real `emit_file` worker (`Worker::on_batch`, `EventBatch`, naming, retention,
//! reuse) driven directly over the fault-injecting filesystem in `simfs`, with an injected clock
//! and rng. Decides C10 (single-fault enumeration + multi-fault sampling per generated history)
//! and C11 (reference rolling policy over histories, configurations, clock trajectories).

use std::{
    collections::{BTreeMap, BTreeSet},
    panic::{self, AssertUnwindSafe},
    sync::{Arc, Mutex},
    time::Duration,
};

use emit_file::verif::{Batch, DirectWorker, Roll};
use serde_json::{json, Value};

use crate::{
    choices::Choices,
    core::{take_last_panic, Engine, Outcome, RunCtx},
    rng::{mix, Rng},
    simfs::{name_of, parent_of, Fault, OpKind, SimFs},
};

pub struct Fsim {
    /// "C10" or "C11"
    pub mode: &'static str,
}

// ---------------------------------------------------------------------------------------------
// Injected clock and rng

/// `.0` is the time; `.1` is what a reading costs (the clock moves on by that much after every reading by the code under
/// test, as any real clock does between two statements) and the readings handed out since the harness last cleared them.
#[derive(Clone)]
pub struct SimClock(pub Arc<Mutex<Duration>>, pub Arc<Mutex<(Duration, Vec<Duration>)>>);

impl SimClock {
    pub fn new(start: Duration) -> Self {
        SimClock(Arc::new(Mutex::new(start)), Arc::new(Mutex::new((Duration::ZERO, Vec::new()))))
    }
    pub fn with_read_cost(start: Duration, cost: Duration) -> Self {
        SimClock(Arc::new(Mutex::new(start)), Arc::new(Mutex::new((cost, Vec::new()))))
    }
    /// The readings handed out since the last call.
    pub fn take_readings(&self) -> Vec<Duration> {
        std::mem::take(&mut self.1.lock().unwrap().1)
    }
}

impl emit::Clock for SimClock {
    fn now(&self) -> Option<emit::Timestamp> {
        let mut t = self.0.lock().unwrap();
        let reading = *t;
        let mut c = self.1.lock().unwrap();
        *t += c.0;
        if c.1.len() < 64 {
            c.1.push(reading);
        }
        emit::Timestamp::from_unix(reading)
    }
}

#[derive(Clone)]
pub struct SimRng(pub Arc<Mutex<Rng>>);

impl emit::Rng for SimRng {
    fn fill<A: AsMut<[u8]>>(&self, mut arr: A) -> Option<A> {
        let mut rng = self.0.lock().unwrap();
        for chunk in arr.as_mut().chunks_mut(8) {
            let v = rng.next_u64().to_le_bytes();
            chunk.copy_from_slice(&v[..chunk.len()]);
        }
        Some(arr)
    }
}

// ---------------------------------------------------------------------------------------------
// Independent calendar arithmetic for the oracle (Hinnant's civil_from_days)

fn civil(unix: Duration) -> (i64, u32, u32, u32, u32, u64) {
    let secs = unix.as_secs() as i64;
    let days = secs.div_euclid(86_400);
    let rem = secs.rem_euclid(86_400);
    let z = days + 719_468;
    let era = z.div_euclid(146_097);
    let doe = z.rem_euclid(146_097);
    let yoe = (doe - doe / 1460 + doe / 36_524 - doe / 146_096) / 365;
    let y = yoe + era * 400;
    let doy = doe - (365 * yoe + yoe / 4 - yoe / 100);
    let mp = (5 * doy + 2) / 153;
    let d = (doy - (153 * mp + 2) / 5 + 1) as u32;
    let m = if mp < 10 { mp + 3 } else { mp - 9 } as u32;
    let y = if m <= 2 { y + 1 } else { y };
    let h = (rem / 3600) as u32;
    let mi = ((rem % 3600) / 60) as u32;
    let ms_in_day = rem as u64 * 1000 + unix.subsec_millis() as u64;
    (y, m, d, h, mi, ms_in_day)
}

pub fn period_of(roll: Roll, unix: Duration) -> (String, u64) {
    let (y, m, d, h, mi, ms_in_day) = civil(unix);
    match roll {
        Roll::Day => (format!("{y:04}-{m:02}-{d:02}"), ms_in_day),
        Roll::Hour => (format!("{y:04}-{m:02}-{d:02}-{h:02}"), ms_in_day - h as u64 * 3_600_000),
        Roll::Minute => (
            format!("{y:04}-{m:02}-{d:02}-{h:02}-{mi:02}"),
            ms_in_day - h as u64 * 3_600_000 - mi as u64 * 60_000,
        ),
    }
}

/// Strict grammar: `prefix.period.counter.id.ext`. Returns (period, counter, id).
pub fn parse_own(name: &str, prefix: &str, ext: &str, roll: Roll) -> Option<(String, String, String)> {
    let rest = name.strip_prefix(prefix)?.strip_prefix('.')?;
    let rest = rest.strip_suffix(ext)?.strip_suffix('.')?;
    let parts: Vec<&str> = rest.split('.').collect();
    if parts.len() != 3 {
        return None;
    }
    // any of the three period shapes: a set keeps owning its files when its roll interval is reconfigured
    let _ = roll;
    let p = parts[0];
    if !matches!(p.len(), 10 | 13 | 16) {
        return None;
    }
    for (i, c) in p.chars().enumerate() {
        let dash = matches!(i, 4 | 7 | 10 | 13);
        if dash != (c == '-') || (!dash && !c.is_ascii_digit()) {
            return None;
        }
    }
    if parts[1].len() != 8 || !parts[1].chars().all(|c| c.is_ascii_digit()) {
        return None;
    }
    if parts[2].len() != 8 || !parts[2].chars().all(|c| c.is_ascii_hexdigit()) {
        return None;
    }
    Some((p.to_string(), parts[1].to_string(), parts[2].to_string()))
}

// ---------------------------------------------------------------------------------------------
// Plans

#[derive(Clone, Debug)]
pub struct Cfg {
    pub template: String,
    pub dir: String,
    /// the directory as `split_template` returns it (what the real builder hands to the worker)
    pub raw_dir: String,
    /// prefix and extension as the oracle reads them off the template
    pub prefix: String,
    pub ext: String,
    /// ... and as the library's own `dir_prefix_ext` derived them (what the worker is built with)
    pub lib_prefix: String,
    pub lib_ext: String,
    pub template_misread: Option<String>,
    pub roll: Roll,
    pub reuse: bool,
    pub max_files: usize,
    pub max_size: usize,
    pub sep: &'static [u8],
}

#[derive(Clone, Debug)]
pub enum Step {
    Batch {
        advance_ms: i64,
        /// events pushed and then cleared by an overflow truncation before the real ones
        cleared: Vec<Vec<u8>>,
        events: Vec<Vec<u8>>,
    },
    Restart,
}

#[derive(Clone, Debug)]
pub struct Plan {
    pub cfg: Cfg,
    /// (file name in the directory, content, foreign?)
    pub existing: Vec<(String, Vec<u8>, bool)>,
    pub start: Duration,
    pub steps: Vec<Step>,
    pub rng_seed: u64,
    pub retries: u32,
    pub clock_monotone: bool,
    /// a stranger in the directory whose name is not valid UTF-8
    pub raw_stranger: bool,
    /// how far the clock moves on after every reading by the worker (zero: a clock that stands still within a batch)
    pub read_cost: Duration,
    /// the oldest of the set's pre-existing files cannot be deleted (immutable, read-only mount, held open elsewhere on
    /// some systems): retention has to work around it
    pub stuck_oldest: bool,
}

fn payload(id: u32, len: usize) -> Vec<u8> {
    // unique, separator-free, and no payload is a prefix of a concatenation of others
    let mut v = format!("<{id:05}|").into_bytes();
    let mut x = id.wrapping_mul(2_654_435_761);
    while v.len() < len + 7 {
        x = x.wrapping_mul(1_103_515_245).wrapping_add(12_345);
        v.push(b'a' + ((x >> 16) % 26) as u8);
    }
    v.push(b'>');
    v
}

pub fn gen_plan(ch: &mut Choices, mode: &str, thorough: bool) -> Plan {
    let c11 = mode == "C11";
    let sep: &'static [u8] = match ch.weighted(&[6, 2, 2]) {
        0 => b"\n",
        1 => b"\0",
        _ => b"\r\n",
    };
    let roll = *ch.pick(&[Roll::Minute, Roll::Hour, Roll::Day]);
    let reuse = ch.chance(1, 2);
    let max_files = if c11 {
        match ch.weighted(&[12, 4, 1]) {
            0 => 1 + ch.choose(6) as usize,
            1 => 32,
            // "never delete", spelled the way people spell it
            _ => *ch.pick(&[usize::MAX, usize::MAX / 2, 1 << 40, 100_000]),
        }
    } else {
        match ch.weighted(&[3, 5]) {
            0 => 2 + ch.choose(4) as usize,
            _ => 32,
        }
    };
    let max_size = match ch.weighted(&[6, 6, 4, 1]) {
        0 => 1 << 30,
        1 => 40 + ch.choose(400) as usize,
        2 => 1 + ch.choose(40) as usize,
        // boundary values: nothing ever fits / everything always fits
        _ => *ch.pick(&[0usize, usize::MAX]),
    };
    // templates: prefix / ext variety, including dotted prefixes and sibling-extending names
    let (template, siblings): (&str, &[&str]) = if c11 {
        match ch.weighted(&[5, 2, 2, 2, 1, 1, 1, 1, 1, 1]) {
            0 => ("logs/app.log", &["app2", "ap", "app-old"][..]),
            1 => ("logs/app.log", &["app2", "app.web"][..]),
            2 => ("logs/my.app.txt", &["my", "my.app2"][..]),
            3 => ("app.log", &["app_b"][..]),
            4 => ("logs/deep/er/svc", &["svc2"][..]),
            5 => ("logs/a.b.c.json", &["a", "a.b"][..]),
            // relative to the current directory, spelled out; no extension and no directory; a hidden file;
            // a directory given with a trailing separator component
            6 => ("./app.log", &["app2"][..]),
            7 => ("svc", &["svc_b", "sv"][..]),
            8 => ("logs/.hidden", &[".hidden2"][..]),
            _ => ("logs/./app.log", &["app2"][..]),
        }
    } else {
        match ch.weighted(&[6, 1]) {
            0 => ("logs/app.log", &[][..]),
            _ => ("data/out/app.ndjson", &[][..]),
        }
    };
    let (dir, prefix, ext) = emit_file::verif::split_template(std::path::Path::new(template)).expect("valid template");
    // the oracle's own reading of the template (the worker gets what the library derived; they must agree)
    let (want_dir, want_prefix, want_ext) = match template {
        "logs/app.log" => ("logs", "app", "log"),
        "logs/my.app.txt" => ("logs", "my.app", "txt"),
        "app.log" | "./app.log" => (".", "app", "log"),
        "logs/deep/er/svc" => ("logs/deep/er", "svc", "log"),
        "logs/a.b.c.json" => ("logs", "a.b.c", "json"),
        "svc" => (".", "svc", "log"),
        "logs/.hidden" => ("logs", ".hidden", "log"),
        "logs/./app.log" => ("logs", "app", "log"),
        "data/out/app.ndjson" => ("data/out", "app", "ndjson"),
        other => panic!("template {other} missing from the oracle's table"),
    };
    let template_misread = (crate::simfs::norm(std::path::Path::new(&dir)) != crate::simfs::norm(std::path::Path::new(want_dir))
        || prefix != want_prefix
        || ext != want_ext)
        .then(|| format!("template {template} was split into directory {dir:?}, prefix {prefix:?}, extension {ext:?}; expected {want_dir:?}, {want_prefix:?}, {want_ext:?}"));
    let (prefix_for_oracle, ext_for_oracle) = (want_prefix.to_string(), want_ext.to_string());
    // the worker gets the directory exactly as the builder derives it; the oracle works with the normalised form
    let raw_dir = dir.clone();
    let dir = crate::simfs::norm(std::path::Path::new(&dir));
    let cfg = Cfg {
        template: template.to_string(),
        raw_dir,
        dir,
        lib_prefix: prefix,
        lib_ext: ext,
        template_misread,
        prefix: prefix_for_oracle,
        ext: ext_for_oracle,
        roll,
        reuse,
        max_files,
        max_size,
        sep,
    };

    // 2024-05-27T03:00:00Z plus an offset, sometimes right before a period boundary
    let base = 1_716_778_800u64;
    let start = match ch.weighted(&[8, 4, 4, 1, 1, 1, 1]) {
        0 => Duration::from_millis(base * 1000 + ch.choose(3_600_000) as u64),
        1 => Duration::from_millis((base + 3600) * 1000 - 1 - ch.choose(2000) as u64),
        2 => Duration::from_millis((base + 21 * 3600) * 1000 - 1 - ch.choose(2000) as u64),
        // calendar edges: the last seconds of a leap day, of a year, of February in a non-leap century-rule year
        // (2100 is not a leap year), and the first second of the epoch (a clock that was never set)
        3 => Duration::from_millis(1_709_251_200_000 - 1 - ch.choose(2000) as u64), // 2024-02-29T23:59:59.999Z
        4 => Duration::from_millis(1_704_067_200_000 - 1 - ch.choose(2000) as u64), // 2023-12-31T23:59:59.999Z
        5 => Duration::from_millis(4_107_542_400_000 - 1 - ch.choose(2000) as u64), // 2100-02-28T23:59:59.999Z
        _ => Duration::from_millis(ch.choose(1500) as u64),                          // 1970-01-01T00:00:00Z
    };

    let mut existing = Vec::new();
    if c11 && ch.chance(2, 3) {
        // own files from "earlier runs"
        let n = ch.choose(5);
        for k in 0..n {
            let back = Duration::from_secs(60 * (1 + ch.choose(3000) as u64));
            let when = if ch.chance(1, 8) { start + back } else { start.saturating_sub(back) };
            let (p, ms) = period_of(roll, when);
            let name = format!("{}.{}.{:08}.{:08x}.{}", cfg.prefix, p, ms, 0x1000 + k, cfg.ext);
            let body = [&payload(90_000 + k, 5)[..], sep].concat();
            existing.push((name, body, false));
        }
    }
    if c11 && !siblings.is_empty() && ch.chance(2, 3) {
        // sibling sets sharing the directory and the extension, plus unrelated files
        for (k, sib) in siblings.iter().enumerate() {
            let n = 1 + ch.choose(3);
            for j in 0..n {
                let back = Duration::from_secs(60 * (ch.choose(200) as u64));
                let when = if ch.chance(1, 2) { start + back } else { start.saturating_sub(back) };
                let (p, ms) = period_of(roll, when);
                let name = format!("{}.{}.{:08}.{:08x}.{}", sib, p, ms, 0x2000 + (k as u32) * 16 + j, cfg.ext);
                existing.push((name, b"sibling data\n".to_vec(), true));
            }
        }
        if ch.chance(1, 4) {
            // strangers framed like members (`prefix.` ... `.ext`) whose middle part is valid UTF-8 but not ASCII, at
            // lengths and alignments that put multi-byte characters at every offset a parser might cut at
            for (lead, ch2, n) in [("", "é", 23usize), ("x", "é", 15), ("notes-2024-05-27-r", "é", 3), ("", "日", 9), ("ab", "日", 7), ("2024-05-27.0000000", "é", 6)] {
                let middle: String = format!("{lead}{}", ch2.repeat(n));
                existing.push((format!("{}.{}-v2.{}", cfg.prefix, middle, cfg.ext), b"stranger with a non-ASCII name\n".to_vec(), true));
                existing.push((format!("{}.{}.{}", cfg.prefix, middle, cfg.ext), b"stranger with a non-ASCII name\n".to_vec(), true));
            }
        }
        if ch.chance(1, 2) {
            existing.push((format!("{}.{}", cfg.prefix, cfg.ext), b"plain file\n".to_vec(), true));
            existing.push((format!("{}-notes.{}", cfg.prefix, cfg.ext), b"notes\n".to_vec(), true));
            existing.push(("README".to_string(), b"readme\n".to_vec(), true));
        }
    }

    let n_steps = 1 + ch.choose(if thorough { 10 } else { 7 });
    let mut steps = Vec::new();
    let mut next_id = 1u32;
    let mut clock_monotone = true;
    for _ in 0..n_steps {
        if ch.chance(1, 6) {
            steps.push(Step::Restart);
        }
        let advance_ms: i64 = match ch.weighted(&[4, 4, 2, 2, if c11 { 2 } else { 0 }]) {
            0 => 0,
            1 => 1 + ch.choose(900) as i64,
            2 => 61_000 + ch.choose(120_000) as i64,
            3 => 3_600_000 + ch.choose(90_000_000) as i64,
            _ => {
                clock_monotone = false;
                -(1 + ch.choose(4_000_000) as i64)
            }
        };
        let n_ev = 1 + ch.choose(5);
        let mut events = Vec::new();
        for _ in 0..n_ev {
            let len = match ch.weighted(&[8, 2, 1]) {
                0 => ch.choose(40) as usize,
                1 => 40 + ch.choose(80) as usize,
                _ => 300 + ch.choose(1500) as usize,
            };
            let mut e = payload(next_id, len);
            next_id += 1;
            e.extend_from_slice(sep);
            events.push(e);
        }
        let mut cleared = Vec::new();
        if ch.chance(1, 10) {
            for _ in 0..1 + ch.choose(3) {
                let mut e = payload(next_id, 10 + ch.choose(60) as usize);
                next_id += 1;
                e.extend_from_slice(sep);
                cleared.push(e);
            }
        }
        steps.push(Step::Batch {
            advance_ms,
            cleared,
            events,
        });
    }
    // boundary bias: put the size limit right at (or one or two bytes off) the end of some batch, counted from
    // the start of the history or from a restart, so "fits exactly" / "one byte too many" are hit often
    let mut cfg = cfg;
    if c11 && ch.chance(1, 3) {
        let mut cum = 0usize;
        let mut marks = Vec::new();
        for s in &steps {
            match s {
                Step::Batch { events, .. } => {
                    cum += events.iter().map(|e| e.len()).sum::<usize>();
                    marks.push(cum);
                }
                Step::Restart => {
                    if ch.chance(1, 2) {
                        cum = 0;
                    }
                }
            }
        }
        if !marks.is_empty() {
            let m = marks[ch.choose(marks.len() as u32) as usize];
            let delta = ch.choose(5) as i64 - 2 + if ch.chance(1, 3) { sep.len() as i64 } else { 0 };
            cfg.max_size = (m as i64 + delta).max(1) as usize;
        }
    }
    Plan {
        cfg,
        existing,
        start,
        steps,
        rng_seed: ch.choose(1 << 30) as u64,
        retries: 2 + ch.choose(4),
        clock_monotone,
        raw_stranger: c11 && ch.chance(1, 6),
        // fault-free rolling runs only: under faults a retried attempt reads the clock again, and the reference policy
        // of the fault engine is stated per batch
        read_cost: if c11 {
            match ch.weighted(&[8, 1, 1, 1, 1, 1, 1]) {
                0 => Duration::ZERO,
                1 => Duration::from_nanos(1),
                2 => Duration::from_millis(1),
                3 => Duration::from_millis(7),
                4 => Duration::from_secs(1),
                5 => Duration::from_secs(61),
                _ => Duration::from_secs(3601),
            }
        } else {
            Duration::ZERO
        },
        stuck_oldest: c11 && ch.chance(1, 8),
    }
}

// ---------------------------------------------------------------------------------------------
// Execution of one plan under one fault schedule

pub struct Exec {
    pub violations: Vec<(&'static str, &'static str, String)>,
    pub trace: Vec<String>,
    pub ops: u64,
    pub fired: Vec<(u64, &'static str, OpKind)>,
    pub probes: BTreeSet<&'static str>,
    pub acked_batches: u32,
    pub kinds: Vec<OpKind>,
    pub creates: u32,
    pub removes: u32,
    pub reuses: u32,
}

struct Known {
    /// payload (without separator) -> event bytes (with separator)
    events: BTreeMap<Vec<u8>, Vec<u8>>,
}

fn split_records<'a>(data: &'a [u8], sep: &[u8]) -> Vec<(usize, &'a [u8], bool)> {
    // (start offset, record bytes, terminated by a separator?)
    let mut out = Vec::new();
    let mut start = 0;
    let mut i = 0;
    while i + sep.len() <= data.len() {
        if &data[i..i + sep.len()] == sep {
            out.push((start, &data[start..i], true));
            i += sep.len();
            start = i;
        } else {
            i += 1;
        }
    }
    if start < data.len() {
        out.push((start, &data[start..], false));
    }
    out
}

fn record_ok(rec: &[u8], end_offset: usize, cuts: &BTreeSet<usize>, known: &Known, sep: &[u8]) -> Result<(), String> {
    // A record is: a complete event, empty, or a truncated prefix of exactly one event's bytes ending where a write
    // was interrupted - any of them possibly followed by fragments of a multi-byte separator (each a proper prefix of
    // it: a recovery separator can itself be torn, more than once).
    fn ok(rec: &[u8], end: usize, cuts: &BTreeSet<usize>, known: &Known, sep: &[u8], depth: usize) -> Result<(), String> {
        if rec.is_empty() || known.events.contains_key(rec) {
            return Ok(());
        }
        if known.events.values().any(|e| e.len() > rec.len() && e.starts_with(rec)) {
            if cuts.contains(&end) {
                return Ok(());
            }
            return Err(format!(
                "truncated record {:?} ends at offset {} where no write was interrupted (interruptions at {:?})",
                String::from_utf8_lossy(rec),
                end,
                cuts
            ));
        }
        if depth < 8 {
            for strip in 1..sep.len() {
                if strip <= rec.len() && rec[rec.len() - strip..] == sep[..strip] {
                    // the fragment itself sits where a write was interrupted (or right before the next recovery separator)
                    if ok(&rec[..rec.len() - strip], end - strip, cuts, known, sep, depth + 1).is_ok() {
                        return Ok(());
                    }
                    // a truncated body directly followed by a fragment: the body's cut is what matters
                    let mut with_end = cuts.clone();
                    with_end.insert(end - strip);
                    if cuts.contains(&end) && ok(&rec[..rec.len() - strip], end - strip, &with_end, known, sep, depth + 1).is_ok() {
                        return Ok(());
                    }
                }
            }
        }
        Err(format!("record {:?} is not an event, empty, or a prefix of one event", String::from_utf8_lossy(rec)))
    }
    ok(rec, end_offset, cuts, known, sep, 0)
}

thread_local! {
    /// A dynamic fault program for the next `exec_plan` on this thread (consumed by it): faults whose position
    /// depends on what the worker does after the previous one (see `FaultChain`).
    static NEXT_FAULT_FN: std::cell::RefCell<Option<Arc<dyn Fn(u64, &OpKind) -> Option<Fault> + Send + Sync>>> = const { std::cell::RefCell::new(None) };
}

/// A chain of dependent faults: the first fires at the first call of its kind at or after `start_at`, every further
/// one at the next call of its kind after the previous fault fired - wherever the worker's recovery path puts it.
#[derive(Clone, Debug)]
pub struct FaultChain {
    pub start_at: u64,
    pub steps: Vec<(OpKind, Fault)>,
}

pub fn exec_plan_chain(plan: &Plan, chain: &FaultChain, crash_pick: &mut dyn FnMut(u32) -> u32, want_trace: bool) -> Exec {
    let state = Arc::new(Mutex::new(0usize));
    let chain2 = chain.clone();
    let f: Arc<dyn Fn(u64, &OpKind) -> Option<Fault> + Send + Sync> = Arc::new(move |index, kind| {
        let mut at = state.lock().unwrap();
        let (want, fault) = chain2.steps.get(*at)?;
        if (*at > 0 || index >= chain2.start_at) && want == kind {
            *at += 1;
            Some(fault.clone())
        } else {
            None
        }
    });
    NEXT_FAULT_FN.with(|c| *c.borrow_mut() = Some(f));
    exec_plan(plan, &BTreeMap::new(), crash_pick, false, want_trace)
}

pub fn exec_plan(
    plan: &Plan,
    faults: &BTreeMap<u64, Fault>,
    crash_pick: &mut dyn FnMut(u32) -> u32,
    strict: bool,
    want_trace: bool,
) -> Exec {
    let cfg = &plan.cfg;
    let mut ex = Exec {
        violations: Vec::new(),
        trace: Vec::new(),
        ops: 0,
        fired: Vec::new(),
        probes: BTreeSet::new(),
        acked_batches: 0,
        kinds: Vec::new(),
        creates: 0,
        removes: 0,
        reuses: 0,
    };
    macro_rules! violate {
        ($p:expr, $r:expr, $($a:tt)*) => {{
            let d = format!($($a)*);
            if !ex.violations.iter().any(|(p, r, _)| *p == $p && *r == $r) {
                ex.violations.push(($p, $r, d));
            }
        }};
    }
    macro_rules! tr {
        ($($a:tt)*) => { if want_trace { ex.trace.push(format!($($a)*)); } };
    }

    let mut fs = SimFs::new();
    fs.lock().faults = faults.clone();
    fs.fault_fn = NEXT_FAULT_FN.with(|c| c.borrow_mut().take());
    let file_path = |name: &str| if cfg.dir.is_empty() { name.to_string() } else { format!("{}/{}", cfg.dir, name) };
    for (name, body, foreign) in &plan.existing {
        fs.seed_file(&file_path(name), body, *foreign);
    }
    // the oldest (smallest-named) of the set's own pre-existing files may be one that cannot be deleted
    let stuck: Option<String> = if plan.stuck_oldest && faults.is_empty() {
        let mut own: Vec<&String> = plan.existing.iter().filter(|e| !e.2 && parse_own(&e.0, &cfg.prefix, &cfg.ext, cfg.roll).is_some()).map(|e| &e.0).collect();
        own.sort();
        own.first().map(|n| (*n).clone())
    } else {
        None
    };
    if let Some(name) = &stuck {
        ex.probes.insert("oldest_member_cannot_be_deleted");
        if want_trace {
            ex.trace.push(format!("the oldest member {name} cannot be deleted (path {:?})", crate::simfs::norm(std::path::Path::new(&file_path(name)))));
        }
        fs.lock().undeletable.insert(crate::simfs::norm(std::path::Path::new(&file_path(name))));
    }
    if plan.raw_stranger {
        let mut raw = cfg.prefix.as_bytes().to_vec();
        raw.extend_from_slice(b"-caf\xe9.");
        raw.extend_from_slice(cfg.ext.as_bytes());
        fs.lock().raw_entries.push((cfg.dir.clone(), raw));
        fs.lock().raw_entries.push((cfg.dir.clone(), b"\xff\xfe".to_vec()));
    }
    let clock = SimClock::with_read_cost(plan.start, plan.read_cost);
    let rng = SimRng(Arc::new(Mutex::new(Rng::new(plan.rng_seed))));
    let mut known = Known { events: BTreeMap::new() };
    for (_, body, foreign) in &plan.existing {
        if !*foreign {
            for (_, rec, _) in split_records(body, cfg.sep) {
                known.events.insert(rec.to_vec(), [rec, cfg.sep].concat());
            }
        }
    }

    let new_worker = || {
        DirectWorker::new(
            fs.clone(),
            clock.clone(),
            rng.clone(),
            cfg.raw_dir.clone(),
            cfg.lib_prefix.clone(),
            cfg.lib_ext.clone(),
            cfg.roll,
            cfg.reuse,
            cfg.max_files,
            cfg.max_size,
            cfg.sep,
        )
    };
    tr!(
        "config: template={} roll={:?} reuse={} max_files={} max_size={} sep={:?} start={:?} existing={:?}",
        cfg.template,
        cfg.roll,
        cfg.reuse,
        cfg.max_files,
        cfg.max_size,
        String::from_utf8_lossy(cfg.sep),
        plan.start,
        plan.existing.iter().map(|e| e.0.clone()).collect::<Vec<_>>()
    );

    let is_own = |name: &str| parse_own(name, &cfg.prefix, &cfg.ext, cfg.roll).is_some();
    let own_files = |fs: &SimFs| -> Vec<String> {
        let st = fs.lock();
        st.dir
            .keys()
            .filter(|p| parent_of(p) == cfg.dir)
            .map(|p| name_of(p))
            .filter(|n| is_own(n))
            .collect()
    };

    if let Some(why) = &cfg.template_misread {
        violate!("C11", "template_misread", "{why}");
    }
    let mut worker = Some(new_worker());
    // reference rolling state: the file the set is appending to
    let mut active: Option<(String, String)> = None; // (name, period)
    // acknowledged events and the file that holds them: payload -> file path
    let mut acked: BTreeMap<Vec<u8>, String> = BTreeMap::new();
    let mut deleted_by_worker: BTreeSet<String> = BTreeSet::new();
    let mut created_order: Vec<String> = Vec::new();
    let mut last_log = 0usize;
    let mut faulted_since_ack = false;

    // check every file for mangled records
    let check_files = |fs: &SimFs, known: &Known, ex_v: &mut Vec<(&'static str, &'static str, String)>, when: &str| {
        for (path, data, cuts, foreign) in fs.current_view() {
            if foreign || !is_own(&name_of(&path)) {
                continue;
            }
            for (start, rec, terminated) in split_records(&data, cfg.sep) {
                let end = start + rec.len();
                let r = if !terminated && end == data.len() {
                    // the tail of the file: a write was interrupted (or is in progress) right here
                    let mut here = cuts.clone();
                    here.insert(end);
                    record_ok(rec, end, &here, known, cfg.sep)
                } else {
                    record_ok(rec, end, &cuts, known, cfg.sep)
                };
                if let Err(why) = r {
                    if !ex_v.iter().any(|(p, r, _)| *p == "C10" && *r == "mangled_record") {
                        ex_v.push(("C10", "mangled_record", format!("{when}: in {path} at offset {start}: {why}")));
                    }
                }
            }
        }
    };

    let mut i = 0usize;
    let steps = &plan.steps;
    while i < steps.len() {
        let step = &steps[i];
        i += 1;
        match step {
            Step::Restart => {
                tr!("restart (worker dropped, fresh worker)");
                worker = Some(new_worker());
                active = None;
            }
            Step::Batch {
                advance_ms,
                cleared,
                events,
            } => {
                {
                    let mut c = clock.0.lock().unwrap();
                    if *advance_ms >= 0 {
                        *c += Duration::from_millis(*advance_ms as u64);
                    } else {
                        *c = c.saturating_sub(Duration::from_millis((-*advance_ms) as u64));
                    }
                }
                let ts = *clock.0.lock().unwrap();
                let (period, counter) = period_of(cfg.roll, ts);
                let _ = clock.take_readings();
                let mut batch = Batch::new();
                if !cleared.is_empty() {
                    ex.probes.insert("batch_built_after_overflow_truncation");
                    for e in cleared {
                        batch.push(e.clone());
                    }
                    batch.clear();
                }
                for e in events {
                    known.events.insert(e[..e.len() - cfg.sep.len()].to_vec(), e.clone());
                    batch.push(e.clone());
                }
                let bytes: usize = events.iter().map(|e| e.len()).sum();
                tr!(
                    "batch at {:?} (period {period}, +{}ms): {} events, {bytes} bytes{}",
                    ts,
                    advance_ms,
                    events.len(),
                    if cleared.is_empty() { "" } else { " (built after an overflow truncation)" }
                );

                // ---- reference decision (C11), from what is on disk before the batch
                let own_before: Vec<String> = {
                    let mut v = own_files(&fs);
                    v.sort();
                    v
                };
                let mut ref_active = active.clone();
                if ref_active.is_none() && cfg.reuse {
                    if let Some(newest) = own_before.last() {
                        let (p, _, _) = parse_own(newest, &cfg.prefix, &cfg.ext, cfg.roll).unwrap();
                        ref_active = Some((newest.clone(), p));
                    }
                }
                let active_size = ref_active.as_ref().and_then(|(n, _)| {
                    let st = fs.lock();
                    st.dir.get(&file_path(n)).map(|i| st.inodes[*i].data.len())
                });
                let keep = match (&ref_active, active_size) {
                    (Some((_, p)), Some(size)) => size + bytes <= cfg.max_size && *p == period,
                    _ => false,
                };

                // ---- run the batch through the real worker, retrying like the channel does
                let mut attempt_batch = Some(batch);
                let mut attempts = 0u32;
                let mut outcome: &'static str = "gave_up";
                let mut crashed = false;
                let mut panicked: Option<String> = None;
                let first_event_payloads: Vec<Vec<u8>> = events.iter().map(|e| e[..e.len() - cfg.sep.len()].to_vec()).collect();
                while let Some(b) = attempt_batch.take() {
                    attempts += 1;
                    let remaining_before = b.remaining();
                    let w = worker.as_mut().unwrap();
                    let attempt_log_start = fs.lock().log.len();
                    let r = panic::catch_unwind(AssertUnwindSafe(|| w.on_batch(b)));
                    match r {
                        Ok(Ok(())) => {
                            outcome = "ok";
                        }
                        Ok(Err(None)) => {
                            outcome = "failed_no_retry";
                            faulted_since_ack = true;
                            // "a write failure returns the unwritten remainder for retry": giving a batch up for good is
                            // what a failed flush/sync of bytes written in this attempt does, nothing else
                            let st = fs.lock();
                            let this_attempt = &st.log[attempt_log_start..];
                            let wrote = this_attempt.iter().any(|o| o.kind == OpKind::Write && o.bytes > 0);
                            let write_failed = this_attempt.iter().any(|o| o.kind == OpKind::Write && !o.ok);
                            if !wrote && write_failed {
                                let calls: Vec<String> = this_attempt.iter().map(|o| format!("{:?}{}", o.kind, if o.ok { "" } else { " FAILED" })).collect();
                                drop(st);
                                violate!(
                                    "C10",
                                    "write_failure_not_retried",
                                    "attempt {attempts} wrote nothing, failed at a write and still gave the batch up for good ({} events lost although retries remain); calls: {calls:?}",
                                    remaining_before.len()
                                );
                            }
                        }
                        Ok(Err(Some(rem))) => {
                            faulted_since_ack = true;
                            let remaining = rem.remaining();
                            tr!("  attempt {attempts}: retryable failure, {} of {} events remain", remaining.len(), remaining_before.len());
                            // C10 retry contract: the remainder is a non-empty suffix of what was submitted
                            let ok_suffix = !remaining.is_empty()
                                && remaining.len() <= remaining_before.len()
                                && remaining_before[remaining_before.len() - remaining.len()..] == remaining[..];
                            if !ok_suffix {
                                violate!(
                                    "C10",
                                    "retry_remainder",
                                    "retry remainder {:?} is not a non-empty suffix of the submitted events {:?}",
                                    remaining.iter().map(|e| String::from_utf8_lossy(e).into_owned()).collect::<Vec<_>>(),
                                    remaining_before.iter().map(|e| String::from_utf8_lossy(e).into_owned()).collect::<Vec<_>>()
                                );
                            } else {
                                // everything before the remainder must already be a complete record on disk
                                let done = &remaining_before[..remaining_before.len() - remaining.len()];
                                let view = fs.current_view();
                                for e in done {
                                    let p = &e[..e.len() - cfg.sep.len()];
                                    let present = view.iter().any(|(_, data, _, _)| {
                                        split_records(data, cfg.sep).iter().any(|(_, r, t)| *t && *r == p)
                                    });
                                    if !present {
                                        violate!(
                                            "C10",
                                            "retry_skips_unwritten_event",
                                            "event {:?} is neither completely on disk nor in the retry remainder",
                                            String::from_utf8_lossy(p)
                                        );
                                    }
                                }
                            }
                            if attempts <= plan.retries {
                                ex.probes.insert("batch_retried_after_io_failure");
                                attempt_batch = Some(rem);
                            } else {
                                outcome = "gave_up";
                            }
                        }
                        Err(_) => {
                            let msg = take_last_panic().unwrap_or_default();
                            if msg.contains("<injected:crash>") {
                                crashed = true;
                                outcome = "crashed";
                            } else {
                                panicked = Some(msg);
                                outcome = "panicked";
                            }
                        }
                    }
                }
                tr!("  -> {outcome} after {attempts} attempt(s)");

                // ---- op log of this batch
                let log: Vec<_> = {
                    let st = fs.lock();
                    st.log[last_log..].to_vec()
                };
                last_log += log.len();
                // (a file that cannot be deleted is part of the environment, not an injected fault)
                let faults_in_batch = log.iter().any(|o| o.fault.is_some() && o.fault != Some("immutable_file"));
                if faults_in_batch {
                    faulted_since_ack = true;
                }
                if want_trace {
                    for o in &log {
                        ex.trace.push(format!(
                            "    fs#{} {:?} {} ok={} bytes={}{}",
                            o.index,
                            o.kind,
                            o.path,
                            o.ok,
                            o.bytes,
                            o.fault.map(|f| format!(" FAULT {f}")).unwrap_or_default()
                        ));
                    }
                }
                for o in &log {
                    if o.kind == OpKind::Remove && o.ok {
                        deleted_by_worker.insert(o.path.clone());
                    }
                    if o.kind == OpKind::OpenNew && o.ok {
                        created_order.push(name_of(&o.path));
                    }
                }

                if let Some(msg) = &panicked {
                    violate!("C11", "worker_panicked", "writing a batch panicked (max_files={}): {}", cfg.max_files, msg);
                    violate!("C10", "worker_panicked", "writing a batch panicked: {}", msg);
                    worker = Some(new_worker());
                    active = None;
                }

                // ---- C11: membership, whatever happened
                for o in &log {
                    let touches = matches!(o.kind, OpKind::OpenExisting | OpKind::Remove | OpKind::Write | OpKind::OpenNew);
                    if touches && o.ok && !is_own(&name_of(&o.path)) {
                        violate!(
                            "C11",
                            "touched_foreign_file",
                            "set `{}` (prefix `{}`, ext `{}`) did {:?} on {} which is not one of its own files",
                            cfg.template,
                            cfg.prefix,
                            cfg.ext,
                            o.kind,
                            o.path
                        );
                    }
                    if touches && o.ok && parent_of(&o.path) != cfg.dir {
                        violate!("C11", "touched_outside_directory", "{:?} on {} outside {}", o.kind, o.path, cfg.dir);
                    }
                }

                // ---- C11: rolling / naming / retention against the reference (fault-free batches only)
                let clean = !faults_in_batch && outcome == "ok" && attempts == 1;
                if clean {
                    let written: BTreeSet<String> = log
                        .iter()
                        .filter(|o| o.kind == OpKind::Write && o.ok && o.bytes > 0)
                        .map(|o| name_of(&o.path))
                        .collect();
                    let created: Vec<String> = log
                        .iter()
                        .filter(|o| o.kind == OpKind::OpenNew && o.ok)
                        .map(|o| name_of(&o.path))
                        .collect();
                    if written.len() != 1 {
                        violate!("C11", "not_exactly_one_file", "batch wrote to {} files: {:?}", written.len(), written);
                    }
                    let target = written.iter().next().cloned().unwrap_or_default();
                    if keep {
                        let (want, _) = ref_active.clone().unwrap();
                        if !created.is_empty() || target != want {
                            let why = if active.is_some() { "same period, batch fits" } else { "restart with reuse: newest own file has the same period and the batch fits" };
                            violate!(
                                "C11",
                                "unexpected_roll",
                                "batch of {bytes} bytes at period {period} should be appended to {want} ({why}; size {:?}, limit {}), but went to {target} (created {:?})",
                                active_size,
                                cfg.max_size,
                                created
                            );
                        }
                    } else {
                        if created.len() != 1 || created[0] != target {
                            violate!(
                                "C11",
                                "missing_roll",
                                "batch of {bytes} bytes at period {period} must start a new file (active {:?}, size {:?}, limit {}), but created {:?} and wrote to {target}",
                                ref_active,
                                active_size,
                                cfg.max_size,
                                created
                            );
                        }
                    }
                    for c in &created {
                        match parse_own(c, &cfg.prefix, &cfg.ext, cfg.roll) {
                            None => violate!("C11", "file_name_grammar", "created {c}, not of the form {}.<period>.<counter>.<id>.{}", cfg.prefix, cfg.ext),
                            Some((p, cnt, _)) => {
                                if p != period {
                                    violate!("C11", "file_name_period", "created {c} while the clock reads period {period}");
                                }
                                // the name is that of one clock reading taken while the batch was written (a clock that
                                // moves on between readings: period and counter must come from the same reading)
                                let readings = clock.take_readings();
                                if readings.len() > 1 {
                                    ex.probes.insert("clock_read_more_than_once_in_a_batch");
                                }
                                let one_reading = readings.iter().chain(std::iter::once(&ts)).any(|r| {
                                    let (pp, cc) = period_of(cfg.roll, *r);
                                    p == pp && cnt == format!("{cc:08}")
                                });
                                if !one_reading {
                                    violate!("C11", "file_name_counter", "created {c}; {counter} ms into the period {period} (clock readings during the batch: {readings:?})");
                                }
                            }
                        }
                    }
                    // retention
                    let mut own_after = own_files(&fs);
                    own_after.sort();
                    // retention runs when a file is created; a batch that is appended to an existing file
                    // must merely not grow the set (a directory that already held more than max_files,
                    // e.g. after max_files was lowered, is pruned at the next roll)
                    // (a member that cannot be deleted stays: what is asked for is that retention works around it -
                    // the set then holds at most the maximum, or that file plus the new one if the maximum is one)
                    let stuck_here = stuck.as_ref().map(|s| own_after.contains(s)).unwrap_or(false);
                    if stuck_here && log.iter().any(|o| o.kind == OpKind::Remove && !o.ok) {
                        ex.probes.insert("retention_met_a_file_it_cannot_delete");
                    }
                    let limit = if created.is_empty() { own_before.len().max(cfg.max_files) } else { cfg.max_files.max(if stuck_here { 2 } else { 0 }) };
                    if own_after.len() > limit {
                        violate!(
                            "C11",
                            "retention_exceeded",
                            "after the batch the set holds {} files, max_files={} ({}): {:?}",
                            own_after.len(),
                            cfg.max_files,
                            if active.is_some() { "rolled while a file was active" } else { "rolled at (re)start" },
                            own_after
                        );
                    }
                    if plan.clock_monotone {
                        let removed: Vec<String> = log
                            .iter()
                            .filter(|o| o.kind == OpKind::Remove && o.ok)
                            .map(|o| name_of(&o.path))
                            .collect();
                        for r in &removed {
                            if let Some(s) = own_before.iter().find(|s| !removed.contains(s) && *s < r && Some(*s) != stuck.as_ref()) {
                                violate!("C11", "retention_order", "deleted {r} while the older {s} was kept");
                            }
                        }
                    }
                    // what is active now
                    if let Some((p, _, _)) = parse_own(&target, &cfg.prefix, &cfg.ext, cfg.roll) {
                        active = Some((target.clone(), p));
                    }
                    // fault-free: exact bytes
                    if strict {
                        let st = fs.lock();
                        if let Some(ino) = st.dir.get(&file_path(&target)) {
                            let data = &st.inodes[*ino].data;
                            let want: Vec<u8> = events.concat();
                            if !data.ends_with(&want) {
                                drop(st);
                                violate!("C10", "exact_bytes", "fault-free batch is not the tail of {target}");
                            }
                        }
                    }
                } else if outcome != "ok" {
                    active = None;
                    if faults_in_batch && outcome == "gave_up" {
                        ex.probes.insert("batch_given_up_during_outage");
                    }
                    if !strict && !faults_in_batch && !crashed && panicked.is_none() {
                        // faults were injected earlier in this execution, none during this batch: whatever they left
                        // behind (a poisoned file, a torn tail, a half-made directory entry), the worker must get on
                        violate!(
                            "C10",
                            "wedged_after_faults",
                            "a batch of {bytes} bytes ended `{outcome}` after {attempts} attempt(s) although no fault was injected during it (earlier faults must not wedge the worker); failing calls: {:?}",
                            log.iter().filter(|o| !o.ok).map(|o| format!("{:?} {}", o.kind, o.path)).collect::<Vec<_>>()
                        );
                    }
                    if strict && outcome == "gave_up" {
                        // no fault was injected anywhere in this execution: the filesystem works, so a batch that
                        // cannot be written is the file set's own doing
                        violate!(
                            "C11",
                            "batch_failed_without_fault",
                            "a batch of {bytes} bytes went to no file although no filesystem fault was injected ({attempts} attempts; failing calls: {:?})",
                            log.iter().filter(|o| !o.ok).map(|o| format!("{:?} {}", o.kind, o.path)).collect::<Vec<_>>()
                        );
                        let own_after = own_files(&fs);
                        if own_after.len() > own_before.len().max(cfg.max_files) {
                            violate!(
                                "C11",
                                "retention_exceeded",
                                "after the (failed) batch the set holds {} files, max_files={}: {:?}",
                                own_after.len(),
                                cfg.max_files,
                                own_after
                            );
                        }
                    }
                } else {
                    // ok after retries: whatever file was written last is active
                    if let Some(o) = log.iter().rev().find(|o| o.kind == OpKind::Write && o.ok) {
                        let n = name_of(&o.path);
                        if let Some((p, _, _)) = parse_own(&n, &cfg.prefix, &cfg.ext, cfg.roll) {
                            active = Some((n, p));
                        }
                    }
                }

                // ---- C10 durability: acknowledged => complete, byte-identical, in the durable view
                if outcome == "ok" {
                    ex.acked_batches += 1;
                    let view = fs.durable_view();
                    for p in &first_event_payloads {
                        let holder = view.iter().find(|(_, data)| split_records(data, cfg.sep).iter().any(|(_, r, t)| *t && r == p));
                        match holder {
                            Some((path, _)) => {
                                acked.insert(p.clone(), path.clone());
                            }
                            None if {
                                // synced into a file that the set's own retention has since deleted:
                                // gone by configuration (small max_files), not by a durability failure
                                let st = fs.lock();
                                st.inodes.iter().any(|n| {
                                    deleted_by_worker.contains(&n.name)
                                        && !st.dir.values().any(|i| st.inodes[*i].name == n.name)
                                        && split_records(&n.data[..n.synced_len], cfg.sep).iter().any(|(_, r, t)| *t && r == p)
                                })
                            } =>
                            {
                                ex.probes.insert("acked_event_in_file_deleted_by_retention");
                            }
                            None => {
                                violate!(
                                    "C10",
                                    "acked_not_durable",
                                    "batch reported written, but event {:?} is not a complete record in synced content of a durable file",
                                    String::from_utf8_lossy(p)
                                );
                            }
                        }
                    }
                    if faulted_since_ack {
                        ex.probes.insert("ack_after_fault");
                    }
                    faulted_since_ack = false;
                }

                check_files(&fs, &known, &mut ex.violations, "after batch");

                if crashed {
                    ex.probes.insert("crash");
                    let unsynced = {
                        let st = fs.lock();
                        st.dir.values().any(|i| st.inodes[*i].data.len() > st.inodes[*i].synced_len)
                    };
                    if unsynced {
                        ex.probes.insert("crash_with_unsynced_tail");
                    }
                    fs.crash(crash_pick);
                    tr!("  CRASH; after recovery the directory holds {:?}", own_files(&fs));
                    worker = Some(new_worker());
                    active = None;
                    // acknowledged events survive every crash (unless the worker itself deleted the file)
                    let view = fs.current_view();
                    for (p, path) in &acked {
                        if deleted_by_worker.contains(path) {
                            continue;
                        }
                        let present = view
                            .iter()
                            .any(|(_, data, _, _)| split_records(data, cfg.sep).iter().any(|(_, r, t)| *t && r == p));
                        if !present {
                            violate!(
                                "C10",
                                "acked_lost_in_crash",
                                "event {:?} was acknowledged (in {path}) but is gone after the crash",
                                String::from_utf8_lossy(p)
                            );
                        }
                    }
                    check_files(&fs, &known, &mut ex.violations, "after crash recovery");
                    if cfg.reuse {
                        let torn = fs.current_view().iter().any(|(p, d, _, f)| !f && is_own(&name_of(p)) && !d.is_empty() && !d.ends_with(cfg.sep));
                        if torn {
                            ex.probes.insert("reuse_candidate_with_torn_tail");
                        }
                    }
                }
            }
        }
    }

    // C11: descending name order == reverse creation order, while the clock never went backwards
    if plan.clock_monotone {
        let mut sorted = created_order.clone();
        sorted.sort();
        if sorted != created_order {
            let pos = created_order.windows(2).position(|w| w[0] > w[1]).unwrap_or(0);
            let same_ms = {
                let a = parse_own(&created_order[pos], &cfg.prefix, &cfg.ext, cfg.roll);
                let b = parse_own(&created_order[pos + 1], &cfg.prefix, &cfg.ext, cfg.roll);
                match (a, b) {
                    (Some(a), Some(b)) => a.0 == b.0 && a.1 == b.1,
                    _ => false,
                }
            };
            violate!(
                "C11",
                "name_order",
                "{}: {} was created before {} but sorts after it",
                if same_ms { "same-millisecond creations order by random id" } else { "names do not sort by creation time" },
                created_order[pos],
                created_order[pos + 1]
            );
        }
    }

    let st = fs.lock();
    ex.ops = st.op;
    ex.fired = st.fired.clone();
    ex.kinds = st.log.iter().map(|o| o.kind.clone()).collect();
    ex.creates = st.log.iter().filter(|o| o.kind == OpKind::OpenNew && o.ok).count() as u32;
    ex.removes = st.log.iter().filter(|o| o.kind == OpKind::Remove && o.ok).count() as u32;
    ex.reuses = st.log.iter().filter(|o| o.kind == OpKind::OpenExisting && o.ok).count() as u32;
    drop(st);
    ex
}

// ---------------------------------------------------------------------------------------------

fn applicable_faults(kind: &OpKind) -> Vec<Fault> {
    let mut v = vec![Fault::Err, Fault::ErrOfKind(std::io::ErrorKind::Interrupted), Fault::CrashBefore, Fault::CrashAfter];
    if *kind == OpKind::Write {
        v.extend([
            Fault::Eintr,
            Fault::ShortWrite(1, 2),
            Fault::WriteZero,
            Fault::TornWrite(1, 3),
            Fault::TornWrite(9, 10),
            Fault::CrashMid(1, 2),
        ]);
    }
    v
}

impl Engine for Fsim {
    fn name(&self) -> &'static str {
        if self.mode == "C10" {
            "fsim-faults"
        } else {
            "fsim-rolling"
        }
    }

    fn real_vs_stub(&self) -> Value {
        json!({
            "real": ["emit_file::Worker::on_batch", "EventBatch (push/clear/current/advance)", "ActiveFile (reuse / create / write_event / recovery separator)", "ActiveFileSet (read / retention)", "file naming"],
            "simulated": ["filesystem (simfs: written vs synced content, durable vs volatile directory entries, fault at any call index, crash with loss of any un-synced suffix)", "clock (scripted, incl. backwards steps)", "rng (seeded)", "channel retry loop (re-submits the returned remainder a bounded number of times)"],
            "not_exercised": ["StdFilesystem / a real disk", "FileSet::emit formatting (see file-e2e)"]
        })
    }

    fn rule(&self) -> &'static str {
        if self.mode == "C10" {
            "one run = one generated batch history (1-10 batches x 1-5 events, separators \\n \\0 \\r\\n, reuse on/off, clock advances, restarts): a fault-free execution with the strict oracle, then EVERY filesystem call index x EVERY applicable fault kind (error, EINTR, short write, zero write, torn write, crash before/after/mid-write with three crash-recovery variants), then sampled 2-4-fault sequences; evaluations counts executions; non-trivial = an execution in which an injected fault fired; distinct = distinct (history, fault schedule, crash variant)"
        } else {
            "one run = one generated configuration (template incl. dotted / sibling-extended prefixes, roll by day/hour/minute, max_files 1-6, 32 or huge (up to usize::MAX), size limit tiny..huge, reuse on/off) x pre-existing directory contents (own files from earlier runs, sibling sets, strangers) x clock trajectory (zero, forward, period-crossing, backward steps) x batch history with restarts, executed fault-free against a reference rolling policy; non-trivial = at least one roll, retention delete, reuse or restart happened; distinct = distinct history hash"
        }
    }

    fn run(&self, ch: &mut Choices, ctx: &RunCtx) -> Outcome {
        let mut out = Outcome::default();
        let plan = gen_plan(ch, self.mode, ctx.thorough);
        let mut zero = |_n: u32| 0u32;

        // fault-free execution, strict oracle
        let base = exec_plan(&plan, &BTreeMap::new(), &mut zero, true, ctx.want_trace);
        for (p, r, d) in &base.violations {
            out.violate(p, r, format!("[fault-free] {d}"));
        }
        out.steps += base.ops;
        for p in &base.probes {
            out.probe(p);
        }
        let mut h = crate::rng::Fnv::new();
        h.str(&format!("{plan:?}"));
        let plan_hash = h.finish();
        out.trace_hash = plan_hash;
        if ctx.want_trace {
            out.trace = base.trace.clone();
        }

        if self.mode == "C11" {
            out.nontrivial = base.creates >= 2 || base.removes >= 1 || base.reuses >= 1 || !plan.existing.is_empty();
            if base.creates >= 2 {
                out.probe("rolled_to_a_new_file");
            }
            if base.removes >= 1 {
                out.probe("retention_deleted_a_file");
            }
            if base.reuses >= 1 {
                out.probe("reused_an_existing_file");
            }
            if !plan.clock_monotone {
                out.probe("clock_went_backwards");
            }
            if plan.existing.iter().any(|e| e.2) {
                out.probe("foreign_files_in_directory");
            }
            if plan.raw_stranger {
                out.probe("non_utf8_file_name_in_directory");
            }
            if plan.steps.iter().any(|s| matches!(s, Step::Restart)) {
                out.probe("restart");
            }
            out.states.insert(mix(plan_hash, "cfg", plan.cfg.max_files as u64));
            return out;
        }

        // C10: enumerate every call index x every applicable fault kind
        let kinds: Vec<OpKind> = base.kinds.clone();
        let mut traced_failure = false;
        let mut executions = 1u64;
        let mut fired_total = 0u64;
        let mut distinct_fired: BTreeSet<(usize, &'static str)> = BTreeSet::new();
        for (idx, kind) in kinds.iter().enumerate() {
            for fault in applicable_faults(kind) {
                let variants: &[u32] = match fault {
                    Fault::CrashBefore | Fault::CrashAfter | Fault::CrashMid(..) => &[0, 1, 2],
                    _ => &[0],
                };
                for variant in variants {
                    let mut faults = BTreeMap::new();
                    faults.insert(idx as u64, fault.clone());
                    // crash recovery decisions: variant 0 loses everything volatile, 1 keeps everything,
                    // 2 is drawn from a PRNG derived from (history, index, kind)
                    let mut sub = Rng::new(mix(plan_hash, fault.kind(), idx as u64));
                    let mut pick = |n: u32| -> u32 {
                        match variant {
                            0 => 0,
                            1 => 1.min(n - 1),
                            _ => sub.below(n),
                        }
                    };
                    let ex = exec_plan(&plan, &faults, &mut pick, false, false);
                    executions += 1;
                    out.steps += ex.ops;
                    if !ex.fired.is_empty() {
                        fired_total += 1;
                        distinct_fired.insert((idx, fault.kind()));
                        out.fault(fault.kind());
                    }
                    for p in &ex.probes {
                        out.probe(p);
                    }
                    if ctx.want_trace && ex.violations.iter().any(|v| v.0 == ctx.property) && !traced_failure {
                        traced_failure = true;
                        let mut sub = Rng::new(mix(plan_hash, fault.kind(), idx as u64));
                        let mut pick = |n: u32| -> u32 {
                            match variant {
                                0 => 0,
                                1 => 1.min(n - 1),
                                _ => sub.below(n),
                            }
                        };
                        let again = exec_plan(&plan, &faults, &mut pick, false, true);
                        out.trace.push(format!("=== failing execution: fault {} at fs call #{idx} ({kind:?}), crash variant {variant} ===", fault.kind()));
                        out.trace.extend(again.trace);
                        for v in &again.violations {
                            out.trace.push(format!("  !! {}/{}: {}", v.0, v.1, v.2));
                        }
                    }
                    for (p, r, d) in &ex.violations {
                        out.violate(p, r, format!("[fault {} at fs call #{idx} ({kind:?}), crash variant {variant}] {d}", fault.kind()));
                    }
                }
            }
        }
        // sampled multi-fault sequences (drawn from the choice stream)
        let n_multi = if ctx.thorough { 12 } else { 4 };
        for _ in 0..n_multi {
            let mut faults = BTreeMap::new();
            let n = 2 + ch.choose(3);
            for _ in 0..n {
                let idx = ch.choose(kinds.len() as u32 + 8) as usize;
                let kind = kinds.get(idx).cloned().unwrap_or(OpKind::Write);
                let options = applicable_faults(&kind);
                let f = options[ch.choose(options.len() as u32) as usize].clone();
                faults.insert(idx as u64, f);
            }
            let mut picks: Vec<u32> = Vec::new();
            let mut pick = |n: u32| -> u32 {
                let v = ch.choose(n);
                picks.push(v);
                v
            };
            let ex = exec_plan(&plan, &faults, &mut pick, false, false);
            executions += 1;
            out.steps += ex.ops;
            if ex.fired.len() >= 2 {
                out.probe("multi_fault_execution_with_2plus_fired");
            }
            for (_, k, _) in &ex.fired {
                out.fault(k);
            }
            if !ex.fired.is_empty() {
                fired_total += 1;
            }
            for p in &ex.probes {
                out.probe(p);
            }
            for (p, r, d) in &ex.violations {
                out.violate(p, r, format!("[faults {faults:?}] {d}"));
            }
        }
        // outage windows: every filesystem call fails for a stretch (full disk, unmounted volume, revoked
        // permissions), long enough to exhaust the retries of a batch or two; afterwards the disk works again
        let n_window = if ctx.thorough { 6 } else { 2 };
        for _ in 0..n_window {
            let mut faults = BTreeMap::new();
            let start = ch.choose(kinds.len() as u32 + 2) as u64;
            let len = 2 + ch.choose(22) as u64;
            for idx in start..start + len {
                faults.insert(idx, Fault::Err);
            }
            let mut pick = |n: u32| -> u32 { ch.choose(n) };
            let ex = exec_plan(&plan, &faults, &mut pick, false, false);
            executions += 1;
            out.steps += ex.ops;
            if ex.fired.len() >= 2 {
                out.probe("outage_window_execution");
            }
            if ex.probes.contains("batch_given_up_during_outage") {
                out.fault("outage_window_exhausted_retries");
            }
            for (_, k, _) in &ex.fired {
                out.fault(k);
            }
            if !ex.fired.is_empty() {
                fired_total += 1;
            }
            for p in &ex.probes {
                out.probe(p);
            }
            for (p, r, d) in &ex.violations {
                out.violate(p, r, format!("[outage: every filesystem call from #{start} to #{} fails] {d}", start + len - 1));
            }
        }
        // fault chains: 2-3 faults where each lands on the next call of a chosen kind after the previous one fired,
        // i.e. inside the recovery from the previous fault (retry on a new file, sync before handing back a remainder ...)
        let n_chains = if ctx.thorough { 16 } else { 6 };
        for _ in 0..n_chains {
            let len = 2 + ch.choose(2) as usize;
            let mut steps = Vec::new();
            // a quarter of the chains hit the same kind of call with the same fault several times in a row (what a
            // retry loop inside the worker, or around it, sees)
            let repeat = ch.chance(1, 4);
            for i in 0..if repeat { 1 } else { len } {
                let kind = if i == 0 {
                    ch.pick(&[OpKind::Write, OpKind::Write, OpKind::SyncAll, OpKind::OpenNew]).clone()
                } else {
                    ch.pick(&[OpKind::Write, OpKind::Write, OpKind::SyncAll, OpKind::Flush, OpKind::OpenNew, OpKind::SyncParent, OpKind::ReadDir, OpKind::OpenExisting]).clone()
                };
                let options = applicable_faults(&kind);
                // no crashes inside chains: the point is what the same worker does next
                let options: Vec<Fault> = options
                    .into_iter()
                    .filter(|f| !matches!(f, Fault::CrashBefore | Fault::CrashAfter | Fault::CrashMid(..)))
                    .collect();
                let f = options[ch.choose(options.len() as u32) as usize].clone();
                steps.push((kind, f));
            }
            if repeat {
                let k = 2 + ch.choose(4) as usize;
                let first = steps[0].clone();
                steps = vec![first; k];
                // other kinds of retryable-looking errors too
                if let Fault::ErrOfKind(_) = steps[0].1 {
                    let kind = *ch.pick(&[std::io::ErrorKind::Interrupted, std::io::ErrorKind::WouldBlock, std::io::ErrorKind::TimedOut]);
                    for st in steps.iter_mut() {
                        st.1 = Fault::ErrOfKind(kind);
                    }
                }
            }
            let chain = FaultChain {
                start_at: ch.choose(kinds.len() as u32 + 1) as u64,
                steps,
            };
            let mut pick = |n: u32| -> u32 { ch.choose(n) };
            let ex = exec_plan_chain(&plan, &chain, &mut pick, false);
            executions += 1;
            out.steps += ex.ops;
            if ex.fired.len() >= 2 {
                out.probe("fault_chain_with_2plus_fired");
            }
            if ex.fired.len() >= 3 {
                out.probe("fault_chain_with_3_fired");
            }
            for (_, k, _) in &ex.fired {
                out.fault(k);
            }
            if !ex.fired.is_empty() {
                fired_total += 1;
            }
            for p in &ex.probes {
                out.probe(p);
            }
            for (p, r, d) in &ex.violations {
                out.violate(p, r, format!("[fault chain {chain:?}] {d}"));
            }
        }
        out.evals = executions;
        out.distinct_extra = distinct_fired.len() as u64;
        out.probes.insert("executions_with_fault_fired", fired_total);
        out.nontrivial = fired_total > 0;
        out
    }
}

