//! Lane executor: 1-3 real OS threads ("lanes", so thread-locals are real and per-thread) that
//! poll tasks one poll at a time on the controller's command. Exactly one lane runs at any time;
//! which task is polled on which lane is the controller's (seeded) decision, which makes this a
//! work-stealing executor with every steal and every poll order decided by the seed.

use std::{
    future::Future,
    panic::{self, AssertUnwindSafe},
    pin::Pin,
    sync::{mpsc, Arc},
    task::{Context, Poll, Wake, Waker},
    thread,
};

pub type Task = Pin<Box<dyn Future<Output = ()> + Send>>;

/// Runs on the lane right after a poll / drop; returns descriptions of anything that leaked.
pub type PostCheck = Arc<dyn Fn() -> Vec<String> + Send + Sync>;

pub enum Outcome {
    Ready,
    Pending(Task),
    Panicked(String),
    Dropped,
}

enum Job {
    Poll(Task),
    Drop(Task),
    Stop,
}

struct Lane {
    tx: mpsc::Sender<Job>,
    rx: mpsc::Receiver<(Outcome, Vec<String>)>,
    handle: Option<thread::JoinHandle<()>>,
}

pub struct Lanes {
    lanes: Vec<Lane>,
}

struct NoopWake;
impl Wake for NoopWake {
    fn wake(self: Arc<Self>) {}
}

impl Lanes {
    pub fn new(n: usize, post: PostCheck) -> Self {
        let mut lanes = Vec::new();
        for i in 0..n {
            let (tx, job_rx) = mpsc::channel::<Job>();
            let (res_tx, rx) = mpsc::channel();
            let post = post.clone();
            let handle = thread::Builder::new()
                .name(format!("lane{i}"))
                .spawn(move || {
                    let waker: Waker = Arc::new(NoopWake).into();
                    while let Ok(job) = job_rx.recv() {
                        match job {
                            Job::Poll(mut task) => {
                                let r = panic::catch_unwind(AssertUnwindSafe(|| {
                                    task.as_mut().poll(&mut Context::from_waker(&waker))
                                }));
                                let out = match r {
                                    Ok(Poll::Ready(())) => Outcome::Ready,
                                    Ok(Poll::Pending) => Outcome::Pending(task),
                                    Err(_) => {
                                        let msg = crate::core::take_last_panic().unwrap_or_default();
                                        // the task is dead; drop what is left of it here, on this lane
                                        let _ = panic::catch_unwind(AssertUnwindSafe(move || drop(task)));
                                        Outcome::Panicked(msg)
                                    }
                                };
                                let leaks = post();
                                if res_tx.send((out, leaks)).is_err() {
                                    break;
                                }
                            }
                            Job::Drop(task) => {
                                let r = panic::catch_unwind(AssertUnwindSafe(move || drop(task)));
                                let out = match r {
                                    Ok(()) => Outcome::Dropped,
                                    Err(_) => Outcome::Panicked(crate::core::take_last_panic().unwrap_or_default()),
                                };
                                let leaks = post();
                                if res_tx.send((out, leaks)).is_err() {
                                    break;
                                }
                            }
                            Job::Stop => break,
                        }
                    }
                })
                .expect("spawn lane");
            lanes.push(Lane {
                tx,
                rx,
                handle: Some(handle),
            });
        }
        Lanes { lanes }
    }

    pub fn len(&self) -> usize {
        self.lanes.len()
    }

    pub fn poll_on(&self, lane: usize, task: Task) -> (Outcome, Vec<String>) {
        self.lanes[lane].tx.send(Job::Poll(task)).expect("lane alive");
        self.lanes[lane].rx.recv().expect("lane reply")
    }

    pub fn drop_on(&self, lane: usize, task: Task) -> (Outcome, Vec<String>) {
        self.lanes[lane].tx.send(Job::Drop(task)).expect("lane alive");
        self.lanes[lane].rx.recv().expect("lane reply")
    }
}

impl Drop for Lanes {
    fn drop(&mut self) {
        for lane in &mut self.lanes {
            let _ = lane.tx.send(Job::Stop);
        }
        for lane in &mut self.lanes {
            if let Some(h) = lane.handle.take() {
                let _ = h.join();
            }
        }
    }
}
