pub mod chan_inline;
pub mod choices;
pub mod core;
pub mod rng;
