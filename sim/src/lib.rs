pub mod chan_inline;
pub mod choices;
pub mod core;
pub mod ctx_frames;
pub mod fsim;
pub mod lanes;
pub mod rng;
pub mod simfs;
