pub mod chan_inline;
pub mod choices;
pub mod core;
pub mod fsim;
pub mod rng;
pub mod simfs;
