//! `otlp` engine: the real `emit_otlp::Otlp` (encoders, request splitting, `OtlpTransport::send`,
//! `HttpConnection`, hyper client, h2, gzip, `blocking_flush`) against a scripted collector.
//! Seams replaced under the cfg flag: TCP connect (in-memory `SimStream`), tokio timers (virtual
//! clock), and the worker's thread + runtime (a simulated thread running `simnet::run_executor`).
//! The collector (hand-written HTTP/1.1 server, `h2::server` for gRPC) runs as tasks on the same
//! executor and answers each request according to the fault script.

use std::{
    collections::{BTreeMap, BTreeSet},
    io::Read,
    panic::{self, AssertUnwindSafe},
    sync::{
        atomic::{AtomicU32, Ordering},
        Arc, Mutex,
    },
    time::Duration,
};

use emit::Emitter as _;
use emit_batcher::verif::{BoxFuture, Hooks, SimIo};
use serde_json::{json, Value as Json};
use tokio::io::{AsyncReadExt, AsyncWriteExt};

use crate::{
    choices::Choices,
    core::{history_hash, Engine, Outcome, RunCtx},
    simnet::{self, stream_pair, SimStream},
    simthread::{self, Sched, SchedRef, ThreadHooks},
};

pub struct OtlpSim {
    pub focus: &'static str,
}

#[derive(Clone, Copy, Debug, PartialEq, Eq, PartialOrd, Ord)]
pub enum Signal {
    Logs,
    Traces,
    Metrics,
}

#[derive(Clone, Copy, Debug, PartialEq)]
enum Transport {
    HttpJson,
    HttpProto,
    GrpcProto,
}

#[derive(Clone, Debug)]
struct HostCfg {
    signal: Signal,
    transport: Transport,
    gzip: bool,
    host: String,
    down_forever: bool,
}

#[derive(Clone, Debug, PartialEq)]
enum Decision {
    Ack,
    SlowAck(u64),
    Status(u32),
    CloseBeforeRead,
    ReadThenClose,
    ResetMidBody,
    Stall,
    /// the response starts (status line / HEADERS with 200) and is then aborted before it is complete: for gRPC the
    /// stream is reset before the trailers that carry grpc-status; for HTTP/1.1 the connection closes after the request
    /// was read (same as `ReadThenClose`: a 200 status line alone would be a legitimate acknowledgement there)
    ResetMidResponse,
    /// gRPC: response headers, then silence (the stream hangs, the connection is fine)
    StallAfterHeaders,
}

impl Decision {
    fn kind(&self) -> &'static str {
        match self {
            Decision::Ack => "ack",
            Decision::SlowAck(_) => "slow_ack",
            Decision::Status(_) => "reject_status",
            Decision::CloseBeforeRead => "close_before_reading",
            Decision::ReadThenClose => "read_then_close",
            Decision::ResetMidBody => "reset_mid_body",
            Decision::Stall => "stall_until_client_timeout",
            Decision::ResetMidResponse => "reset_mid_response",
            Decision::StallAfterHeaders => "stall_after_response_headers",
        }
    }
    fn transport_level(&self) -> bool {
        matches!(
            self,
            Decision::CloseBeforeRead | Decision::ReadThenClose | Decision::ResetMidBody | Decision::Stall | Decision::ResetMidResponse
        )
    }
}

#[derive(Clone, Debug)]
struct ReqLog {
    at: Duration,
    done_at: Option<Duration>,
    signal: Signal,
    path: String,
    conn: u32,
    markers: Vec<String>,
    body_complete: bool,
    decision: Decision,
    acked: bool,
    bytes: usize,
}

struct Collector {
    sched: SchedRef,
    hosts: Vec<HostCfg>,
    log: Mutex<Vec<ReqLog>>,
    faults_left: Mutex<u32>,
    consecutive_failures: Mutex<BTreeMap<Signal, u32>>,
    /// events are large enough for a batch to be split over several requests
    split_batches: bool,
    conns: AtomicU32,
    refused: AtomicU32,
    trace: Mutex<Vec<String>>,
    fired: Mutex<BTreeMap<&'static str, u64>>,
    max_chunk: usize,
    /// overflow mode: the first request is held until the client gives up
    stall_first: std::sync::atomic::AtomicBool,
    /// signals one of whose connections went dark (a failure the request log does not show)
    wedged: Mutex<BTreeSet<Signal>>,
    /// long-outage mode: this signal's collector rejects its next `n` requests, however many that is - more than one
    /// batch's retry budget (1 + 10 attempts). It is the only thing that ever fails for that signal, and every such
    /// failure is a complete, logged request, so that the oracle can count the attempts each batch was given.
    outage: Mutex<Option<(Signal, u32)>>,
}

impl Collector {
    /// Failed attempts of any cause (rejected or broken requests, refused connections, connections closed or gone
    /// dark under the client) in a row for this signal: every fault source asks before it strikes, so that a batch
    /// is never failed more often than its retry budget allows - a batch that IS given up is then the client's doing.
    fn may_fail(&self, signal: Signal) -> bool {
        if matches!(*self.outage.lock().unwrap(), Some((s, _)) if s == signal) {
            return false;
        }
        *self.consecutive_failures.lock().unwrap().entry(signal).or_insert(0) < FAIL_CAP
    }

    fn count_failure(&self, signal: Signal) {
        *self.consecutive_failures.lock().unwrap().entry(signal).or_insert(0) += 1;
    }

    fn note(&self, s: String) {
        let now = self.sched.now();
        self.trace.lock().unwrap().push(format!("[t={now:?}] collector: {s}"));
    }

    fn decide(&self, signal: Signal) -> Decision {
        if self.stall_first.swap(false, Ordering::SeqCst) {
            *self.fired.lock().unwrap().entry("stall_until_client_timeout").or_insert(0) += 1;
            self.count_failure(signal);
            return Decision::Stall;
        }
        if let Some((s, n)) = self.outage.lock().unwrap().as_mut() {
            if *s == signal {
                if *n == 0 {
                    return Decision::Ack;
                }
                *n -= 1;
                *self.fired.lock().unwrap().entry("long_outage_rejection").or_insert(0) += 1;
                let st = *self.sched.lock().choices.pick(&[503u32, 500, 429, 503]);
                return Decision::Status(st);
            }
        }
        let mut left = self.faults_left.lock().unwrap();
        let mut cons = self.consecutive_failures.lock().unwrap();
        let c = cons.entry(signal).or_insert(0);
        // faults stop inside the retry budget: never more than FAIL_CAP failures in a row per signal. "In a row" ends
        // with an acknowledged request only where a batch is one request: a batch that is split over several requests
        // is not done when one of them is acknowledged, and the client's retry budget is per batch - there the cap is
        // on all failures of the signal in the run
        if *left == 0 || *c >= FAIL_CAP {
            if !self.split_batches {
                *c = 0;
            }
            return Decision::Ack;
        }
        let pick = self.sched.lock().choices.weighted(&[8, 2, 3, 1, 2, 2, 1, 1]);
        let d = match pick {
            0 => Decision::Ack,
            1 => {
                let ms = *self.sched.lock().choices.pick(&[5u64, 300, 4000]);
                Decision::SlowAck(ms)
            }
            2 => {
                let st = *self.sched.lock().choices.pick(&[500u32, 503, 429, 400, 307, 404]);
                Decision::Status(st)
            }
            3 => Decision::CloseBeforeRead,
            4 => Decision::ReadThenClose,
            5 => Decision::ResetMidBody,
            6 => Decision::Stall,
            _ => Decision::ResetMidResponse,
        };
        if !matches!(d, Decision::Ack | Decision::SlowAck(_)) {
            *left -= 1;
            *c += 1;
        } else if !self.split_batches {
            *c = 0;
        }
        *self.fired.lock().unwrap().entry(d.kind()).or_insert(0) += 1;
        d
    }
}

/// Does the request target name the export endpoint of this signal? (A collector answers 404 / UNIMPLEMENTED to
/// anything else, however well-formed the body.)
fn path_known(signal: Signal, target: &str) -> bool {
    // HTTP/1.1 clients may send the absolute form
    let path = match target.strip_prefix("http://") {
        Some(rest) => rest.find('/').map(|i| &rest[i..]).unwrap_or("/"),
        None => target,
    };
    let (http, grpc) = match signal {
        Signal::Logs => ("/v1/logs", "/opentelemetry.proto.collector.logs.v1.LogsService/Export"),
        Signal::Traces => ("/v1/traces", "/opentelemetry.proto.collector.trace.v1.TraceService/Export"),
        Signal::Metrics => ("/v1/metrics", "/opentelemetry.proto.collector.metrics.v1.MetricsService/Export"),
    };
    path == http || path == grpc
}

fn find_markers(body: &[u8]) -> Vec<String> {
    let mut out = Vec::new();
    let mut i = 0;
    while i + 10 <= body.len() {
        if &body[i..i + 2] == b"MK" && &body[i + 8..i + 10] == b"KM" && body[i + 2..i + 8].iter().all(|b| b.is_ascii_digit()) {
            out.push(String::from_utf8_lossy(&body[i..i + 10]).into_owned());
            i += 10;
        } else {
            i += 1;
        }
    }
    out.sort();
    out.dedup();
    out
}

fn gunzip(data: &[u8]) -> Vec<u8> {
    let mut out = Vec::new();
    let _ = flate2::read::GzDecoder::new(data).read_to_end(&mut out);
    out
}

async fn sim_sleep(ms: u64) {
    emit_batcher::verif::tokio_shim::time::sleep(Duration::from_millis(ms)).await
}

// ---------------------------------------------------------------------------------------------
// HTTP/1.1 collector

async fn http1_conn(mut stream: SimStream, col: Arc<Collector>, host: HostCfg, conn: u32) {
    let mut buf: Vec<u8> = Vec::new();
    loop {
        // request head
        let head_end = loop {
            if let Some(p) = buf.windows(4).position(|w| w == b"\r\n\r\n") {
                break p + 4;
            }
            let mut chunk = [0u8; 4096];
            match stream.read(&mut chunk).await {
                Ok(0) | Err(_) => return,
                Ok(n) => buf.extend_from_slice(&chunk[..n]),
            }
        };
        let (path, content_length, gz) = {
            let mut headers = [httparse::EMPTY_HEADER; 32];
            let mut req = httparse::Request::new(&mut headers);
            if req.parse(&buf[..head_end]).is_err() {
                col.note(format!("conn {conn}: unparsable request head"));
                return;
            }
            let path = req.path.unwrap_or("").to_string();
            let mut cl = 0usize;
            let mut gz = false;
            for h in req.headers.iter() {
                if h.name.eq_ignore_ascii_case("content-length") {
                    cl = std::str::from_utf8(h.value).ok().and_then(|s| s.parse().ok()).unwrap_or(0);
                }
                if h.name.eq_ignore_ascii_case("content-encoding") && h.value == b"gzip" {
                    gz = true;
                }
            }
            (path, cl, gz)
        };
        buf.drain(..head_end);
        let decision = if path_known(host.signal, &path) {
            col.decide(host.signal)
        } else {
            *col.fired.lock().unwrap().entry("unknown_request_path").or_insert(0) += 1;
            Decision::Status(404)
        };
        let at = col.sched.now();
        let mut entry = ReqLog {
            at,
            done_at: None,
            signal: host.signal,
            path: path.clone(),
            conn,
            markers: Vec::new(),
            body_complete: false,
            decision: decision.clone(),
            acked: false,
            bytes: content_length,
        };
        col.note(format!("conn {conn}: POST {path} ({content_length} bytes) -> {decision:?}"));
        if decision == Decision::CloseBeforeRead {
            col.log.lock().unwrap().push(entry);
            return;
        }
        // body
        let want = if decision == Decision::ResetMidBody { content_length / 2 } else { content_length };
        while buf.len() < want {
            let mut chunk = vec![0u8; 16 * 1024];
            match stream.read(&mut chunk).await {
                Ok(0) | Err(_) => {
                    entry.markers = find_markers(&buf);
                    col.log.lock().unwrap().push(entry);
                    return;
                }
                Ok(n) => buf.extend_from_slice(&chunk[..n]),
            }
        }
        if decision == Decision::ResetMidBody {
            stream.reset();
            col.log.lock().unwrap().push(entry);
            return;
        }
        let body: Vec<u8> = buf.drain(..content_length).collect();
        let plain = if gz { gunzip(&body) } else { body };
        entry.markers = find_markers(&plain);
        entry.body_complete = true;
        match decision {
            Decision::ReadThenClose | Decision::ResetMidResponse => {
                col.log.lock().unwrap().push(entry);
                return;
            }
            Decision::Stall => {
                col.log.lock().unwrap().push(entry);
                // never answer; the client gives up at its request timeout
                sim_sleep(3_600_000).await;
                return;
            }
            Decision::SlowAck(ms) => sim_sleep(ms).await,
            _ => {}
        }
        let status = match decision {
            Decision::Status(s) => s,
            _ => {
                if col.sched.lock().choices.chance(1, 6) {
                    204
                } else {
                    200
                }
            }
        };
        // real collectors answer with a body (an ExportServiceResponse / an error text) more often than not; error texts
        // come in every length and language, and protobuf collectors answer with a binary Status message
        let body: Vec<u8> = if status == 204 {
            Vec::new()
        } else {
            let (kind, shift, reps) = {
                let mut g = col.sched.lock();
                (g.choices.weighted(&[4, 6, 1, 2, 1]), g.choices.choose(67) as usize, 3 + g.choices.choose(12) as usize)
            };
            match kind {
                0 => Vec::new(),
                1 if status == 200 => b"{\"partialSuccess\":{}}".to_vec(),
                1 => b"simulated collector failure: try again later".to_vec(),
                2 => {
                    let mut b = b"{\"code\":14,\"message\":\"".to_vec();
                    for _ in 0..reps * 3 {
                        b.extend_from_slice(b"the simulated collector is overloaded, try again later; ");
                    }
                    b.extend_from_slice(b"\"}");
                    b
                }
                3 => {
                    // multi-byte characters at every alignment (the unit below is 67 bytes long)
                    let mut b = vec![b'x'; shift];
                    for _ in 0..reps * 2 {
                        b.extend_from_slice("d\u{e9}faillance simul\u{e9}e du collecteur \u{2014} r\u{e9}essayez plus tard \u{1f6a7}; ".as_bytes());
                    }
                    b
                }
                _ => {
                    // google.rpc.Status { code = 14, message = <bytes that are no UTF-8> }
                    let mut b = vec![0x08, 14, 0x12, 0xff, 0x02];
                    b.extend(std::iter::repeat(0x01).take(shift % 3));
                    for i in 0..(reps * 40) {
                        b.push(0x80 | (i as u8 & 0x7f));
                    }
                    b
                }
            }
        };
        if !body.is_empty() {
            *col.fired.lock().unwrap().entry("response_with_body").or_insert(0) += 1;
        }
        if body.len() > 256 {
            *col.fired.lock().unwrap().entry("response_with_long_body").or_insert(0) += 1;
        }
        if !body.is_empty() {
            if status != 200 {
                // a client that does not read an error body to its end closes the connection under it and spends one
                // more attempt finding that out: such a rejection costs two of the consecutive failures a signal may see
                col.count_failure(host.signal);
            }
        }
        let mut resp = format!("HTTP/1.1 {status} Sim\r\ncontent-type: application/json\r\ncontent-length: {}\r\n\r\n", body.len()).into_bytes();
        resp.extend_from_slice(&body);
        let ok = stream.write_all(&resp).await.is_ok();
        entry.acked = ok && (status == 200 || status == 204);
        let acked_now = entry.acked;
        entry.done_at = Some(col.sched.now());
        col.log.lock().unwrap().push(entry);
        if !ok {
            return;
        }
        // servers close connections they consider idle (or send `connection: close` semantics without saying so):
        // the client finds out when it next uses the connection
        if acked_now && col.may_fail(host.signal) && col.sched.lock().choices.chance(1, 12) {
            // (the client's next attempt on this connection fails without reaching the collector: count it now)
            col.count_failure(host.signal);
            *col.fired.lock().unwrap().entry("server_closed_kept_alive_connection").or_insert(0) += 1;
            col.note(format!("conn {conn}: closed by the server after the response (idle timeout)"));
            return;
        }
    }
}

// ---------------------------------------------------------------------------------------------
// gRPC collector (h2 server)

async fn grpc_conn(stream: SimStream, col: Arc<Collector>, host: HostCfg, conn: u32) {
    // keep a handle to reset the connection on demand: SimStream halves share state through the pipes,
    // so a reset is delivered by dropping the connection instead
    let mut h2conn = match h2::server::handshake(stream).await {
        Ok(c) => c,
        Err(e) => {
            col.note(format!("conn {conn}: h2 handshake failed: {e}"));
            return;
        }
    };
    // a connection-scoped fault: after it has served a request or two the connection goes dark - it stays open, but
    // nothing on it is ever answered again (a wedged collector process, a silently dropped NAT / load-balancer flow)
    // while fresh connections to the same collector are served. A per-request stall would not show this on HTTP/2:
    // the retry would arrive as a new stream and be answered
    let wedge_at: Option<u32> = {
        let mut left = col.faults_left.lock().unwrap();
        if *left > 0 && col.sched.lock().choices.chance(1, 8) {
            *left -= 1;
            Some(2 + col.sched.lock().choices.choose(2))
        } else {
            None
        }
    };
    let mut served = 0u32;
    loop {
        match h2conn.accept().await {
            None => return,
            Some(Err(_)) => return,
            Some(Ok((req, respond))) => {
                served += 1;
                if wedge_at == Some(served) && col.may_fail(host.signal) {
                    col.count_failure(host.signal);
                    *col.fired.lock().unwrap().entry("connection_wedged").or_insert(0) += 1;
                    col.wedged.lock().unwrap().insert(host.signal);
                    col.note(format!("conn {conn}: goes dark at its request #{served} (stays open, answers nothing any more)"));
                    let _hold = (req, respond);
                    sim_sleep(3_600_000).await;
                    return;
                }
                let path = req.uri().path().to_string();
                let decision = if path_known(host.signal, &path) {
                    col.decide(host.signal)
                } else {
                    // UNIMPLEMENTED: 1 + (11 % 14) = grpc-status 12
                    *col.fired.lock().unwrap().entry("unknown_request_path").or_insert(0) += 1;
                    Decision::Status(11)
                };
                col.note(format!("conn {conn}: gRPC {path} -> {decision:?}"));
                if matches!(decision, Decision::CloseBeforeRead | Decision::ResetMidBody) {
                    col.log.lock().unwrap().push(ReqLog {
                        at: col.sched.now(),
                        done_at: None,
                        signal: host.signal,
                        path,
                        conn,
                        markers: Vec::new(),
                        body_complete: false,
                        decision,
                        acked: false,
                        bytes: 0,
                    });
                    // dropping the connection aborts every stream on it
                    return;
                }
                let done = Arc::new(std::sync::atomic::AtomicBool::new(false));
                let col2 = col.clone();
                let signal = host.signal;
                simnet::spawn_local(Box::pin(grpc_stream(req, respond, col2, signal, path, conn, decision.clone(), done.clone())));
                if decision == Decision::ReadThenClose {
                    // keep driving the connection until the request has been read, then drop it
                    while !done.load(Ordering::SeqCst) {
                        let accept = Box::pin(h2conn.accept());
                        let tick = Box::pin(sim_sleep(1));
                        match futures_util::future::select(accept, tick).await {
                            futures_util::future::Either::Left((None, _)) => return,
                            _ => {}
                        }
                    }
                    return;
                }
            }
        }
    }
}

async fn grpc_stream(
    req: http::Request<h2::RecvStream>,
    mut respond: h2::server::SendResponse<bytes::Bytes>,
    col: Arc<Collector>,
    signal: Signal,
    path: String,
    conn: u32,
    decision: Decision,
    done: Arc<std::sync::atomic::AtomicBool>,
) {
    let at = col.sched.now();
    let mut body = req.into_body();
    let mut data: Vec<u8> = Vec::new();
    let mut complete = true;
    while let Some(chunk) = body.data().await {
        match chunk {
            Ok(c) => {
                let _ = body.flow_control().release_capacity(c.len());
                data.extend_from_slice(&c);
            }
            Err(_) => {
                complete = false;
                break;
            }
        }
    }
    let message = if data.len() >= 5 {
        let gz = data[0] == 1;
        let m = &data[5..];
        if gz {
            gunzip(m)
        } else {
            m.to_vec()
        }
    } else {
        Vec::new()
    };
    let mut entry = ReqLog {
        at,
        done_at: None,
        signal,
        path,
        conn,
        markers: find_markers(&message),
        body_complete: complete && data.len() >= 5,
        decision: decision.clone(),
        acked: false,
        bytes: data.len(),
    };
    match decision {
        Decision::ReadThenClose | Decision::ResetMidBody | Decision::CloseBeforeRead => {
            col.log.lock().unwrap().push(entry);
            done.store(true, Ordering::SeqCst);
            return;
        }
        Decision::Stall => {
            // never answer - or answer with the response headers and then go quiet (no message, no trailers, no reset, the
            // connection left open): the client's request timeout covers the whole exchange, trailers included. Only the
            // stream hangs; the connection is as good as before and may be used again
            let headers_first = col.sched.lock().choices.chance(1, 2);
            if headers_first {
                entry.decision = Decision::StallAfterHeaders;
            }
            col.log.lock().unwrap().push(entry);
            let _held = if headers_first {
                *col.fired.lock().unwrap().entry("stall_after_response_headers").or_insert(0) += 1;
                let response = http::Response::builder().status(200).header("content-type", "application/grpc").body(()).unwrap();
                respond.send_response(response, false).ok()
            } else {
                None
            };
            sim_sleep(3_600_000).await;
            return;
        }
        Decision::SlowAck(ms) => sim_sleep(ms).await,
        _ => {}
    }
    let grpc_status = match decision {
        Decision::Status(s) => 1 + (s % 14),
        _ => 0,
    };
    // how a gRPC server reports a failure: 0 headers + trailers, 1 "Trailers-Only" (one HEADERS frame carrying
    // grpc-status, END_STREAM - the standard form for immediate errors), 2 a plain HTTP error from a proxy in front
    let form = if grpc_status != 0 { col.sched.lock().choices.choose(3) } else { 0 };
    if form == 1 {
        *col.fired.lock().unwrap().entry("grpc_trailers_only_error").or_insert(0) += 1;
        let response = http::Response::builder()
            .status(200)
            .header("content-type", "application/grpc")
            .header("grpc-status", grpc_status.to_string())
            .header("grpc-message", grpc_message(&col))
            .body(())
            .unwrap();
        let _ = respond.send_response(response, true);
        entry.done_at = Some(col.sched.now());
        col.log.lock().unwrap().push(entry);
        return;
    }
    if form == 2 {
        *col.fired.lock().unwrap().entry("grpc_http_error_status").or_insert(0) += 1;
        let response = http::Response::builder().status(503).body(()).unwrap();
        let _ = respond.send_response(response, true);
        entry.done_at = Some(col.sched.now());
        col.log.lock().unwrap().push(entry);
        return;
    }
    let response = http::Response::builder()
        .status(200)
        .header("content-type", "application/grpc")
        .body(())
        .unwrap();
    let with_message = col.sched.lock().choices.chance(2, 3);
    let ok = match respond.send_response(response, false) {
        Ok(mut send) => {
            if with_message {
                // an (empty) ExportServiceResponse message: 5-byte gRPC frame header
                let _ = send.send_data(bytes::Bytes::from_static(&[0, 0, 0, 0, 0]), false);
            }
            if decision == Decision::ResetMidResponse {
                // the server dies between the response headers and the trailers: no grpc-status ever arrives
                // (the pause lets the connection task write the HEADERS frame out first; a reset issued at once
                // would replace it and look like an ordinary failed request)
                let pause = *col.sched.lock().choices.pick(&[1u64, 20, 500]);
                sim_sleep(pause).await;
                send.send_reset(h2::Reason::INTERNAL_ERROR);
                entry.acked = false;
                entry.done_at = Some(col.sched.now());
                col.log.lock().unwrap().push(entry);
                return;
            }
            let mut trailers = http::HeaderMap::new();
            trailers.insert("grpc-status", http::HeaderValue::from_str(&grpc_status.to_string()).unwrap());
            if grpc_status != 0 {
                trailers.insert("grpc-message", grpc_message(&col));
            }
            send.send_trailers(trailers).is_ok()
        }
        Err(_) => false,
    };
    entry.acked = ok && grpc_status == 0 && entry.body_complete;
    entry.done_at = Some(col.sched.now());
    col.log.lock().unwrap().push(entry);
}

/// How many failures in a row a signal may see (see `Collector::decide`): well inside the client's ten retries, also when
/// some failures cost the client a second attempt the collector cannot see.
const FAIL_CAP: u32 = 5;

/// What a failing gRPC server says about it: short, long, percent-encoded UTF-8 (what the gRPC spec asks for), raw
/// non-ASCII bytes (what some servers send anyway), or nothing.
fn grpc_message(col: &Arc<Collector>) -> http::HeaderValue {
    let (kind, reps) = {
        let mut g = col.sched.lock();
        (g.choices.weighted(&[6, 1, 2, 1, 1]), 2 + g.choices.choose(10) as usize)
    };
    match kind {
        0 => http::HeaderValue::from_static("simulated failure"),
        1 => http::HeaderValue::from_str(&"the simulated collector is overloaded, try again later; ".repeat(reps * 2)).unwrap(),
        2 => http::HeaderValue::from_str(&"d%C3%A9faillance%20simul%C3%A9e%20%E2%80%94%20r%C3%A9essayez; ".repeat(reps)).unwrap(),
        3 => http::HeaderValue::from_bytes("d\u{e9}faillance simul\u{e9}e \u{2014} r\u{e9}essayez; ".repeat(reps).as_bytes()).unwrap(),
        _ => http::HeaderValue::from_static(""),
    }
}

// ---------------------------------------------------------------------------------------------
// Hooks

struct OtlpHooks {
    inner: Arc<ThreadHooks>,
    col: Arc<Collector>,
}

impl Hooks for OtlpHooks {
    fn before_lock(&self, site: &'static str) {
        self.inner.before_lock(site)
    }
    fn lock_contended(&self, site: &'static str) {
        self.inner.lock_contended(site)
    }
    fn now(&self) -> Duration {
        self.inner.now()
    }
    fn timer(&self, deadline: Duration, waker: &std::task::Waker) {
        self.inner.timer(deadline, waker)
    }
    fn sleep(&self, delay: Duration) {
        self.inner.sleep(delay)
    }
    fn spawn_thread(&self, name: Option<String>, f: Box<dyn FnOnce() + Send + 'static>) -> std::io::Result<std::thread::JoinHandle<()>> {
        self.inner.spawn_thread(name, f)
    }
    fn condvar_wait(&self, cv: usize, timeout: Option<Duration>) -> bool {
        self.inner.condvar_wait(cv, timeout)
    }
    fn condvar_notify_all(&self, cv: usize) {
        self.inner.condvar_notify_all(cv)
    }
    fn spawn_task(&self, task: BoxFuture<()>) {
        if !simnet::spawn_local(task) {
            self.inner.sched.violate("C12", "harness", "spawn_task outside an executor".into());
        }
    }
    fn spawn_worker(&self, name: String, worker: BoxFuture<()>) -> std::io::Result<std::thread::JoinHandle<()>> {
        let sched = self.inner.sched.clone();
        let (_, handle) = self.inner.sched.spawn(
            name,
            Box::new(move || {
                simnet::run_executor(&sched, worker);
            }),
        )?;
        Ok(handle)
    }
    fn connect(&self, host: &str, _port: u16) -> BoxFuture<std::io::Result<Box<dyn SimIo>>> {
        let col = self.col.clone();
        let host = host.to_string();
        Box::pin(async move {
            let Some(cfg) = col.hosts.iter().find(|h| h.host == host).cloned() else {
                return Err(std::io::Error::new(std::io::ErrorKind::NotFound, "unknown simulated host"));
            };
            if cfg.down_forever {
                col.refused.fetch_add(1, Ordering::SeqCst);
                *col.fired.lock().unwrap().entry("connect_refused_host_down").or_insert(0) += 1;
                return Err(std::io::Error::new(std::io::ErrorKind::ConnectionRefused, "simulated host is down"));
            }
            // an occasional refused connection
            {
                let mut left = col.faults_left.lock().unwrap();
                let refuse = *left > 0 && col.may_fail(cfg.signal) && col.sched.lock().choices.chance(1, 12);
                if refuse {
                    *left -= 1;
                    col.count_failure(cfg.signal);
                    *col.fired.lock().unwrap().entry("connect_refused").or_insert(0) += 1;
                    col.note(format!("connection to {host} refused"));
                    return Err(std::io::Error::new(std::io::ErrorKind::ConnectionRefused, "simulated connect failure"));
                }
            }
            let conn = col.conns.fetch_add(1, Ordering::SeqCst) + 1;
            let sc = col.sched.clone();
            let chunker: simnet::Chunker = Arc::new(move |n| sc.lock().choices.choose(n));
            let (client, server) = stream_pair(conn, 256 * 1024, col.max_chunk, chunker);
            col.note(format!("connection {conn} to {host} established"));
            let col2 = col.clone();
            let task: simnet::BoxFut = match cfg.transport {
                Transport::GrpcProto => Box::pin(grpc_conn(server, col2, cfg, conn)),
                _ => Box::pin(http1_conn(server, col2, cfg, conn)),
            };
            simnet::spawn_local(task);
            Ok(Box::new(client) as Box<dyn SimIo>)
        })
    }
}

// ---------------------------------------------------------------------------------------------
// Events

#[derive(Clone, Copy, Debug, PartialEq)]
enum Kind {
    None,
    Span,
    Metric,
    Unknown,
}

#[derive(Clone, Copy, Debug, PartialEq)]
enum Ext {
    None,
    Point,
    Range,
    /// a range whose two ends coincide (still a range extent)
    EmptyRange,
    /// a range whose end lies before its start (a clock stepped back during the span; still a range extent)
    BackRange,
}

impl Ext {
    fn is_range(self) -> bool {
        matches!(self, Ext::Range | Ext::EmptyRange | Ext::BackRange)
    }
}

#[derive(Clone, Copy, Debug, PartialEq)]
enum MVal {
    Number,
    Sequence,
    Text,
    Missing,
}

#[derive(Clone, Debug)]
struct Ev {
    marker: String,
    kind: Kind,
    ext: Ext,
    mval: MVal,
    agg: Option<&'static str>,
    payload: usize,
    /// incompressible filler (so that gzip output stays large) instead of a repetitive one
    noisy: bool,
    /// the well-known keys appear a second time, later in the property list, with contrary values: `Props` defines the
    /// first value of a key as the one that counts (that is how event properties shadow ambient ones), so these must
    /// change nothing
    shadow: bool,
    /// while this event is being formatted and encoded on the emitting thread, one of its property values (its `Display`
    /// implementation logs) emits the next event through the same emitter
    reenter: bool,
    /// the properties are built with `emit::props!` and include a key that is a Rust keyword written as a raw identifier
    macro_raw: bool,
}

fn route(ev: &Ev, signals: &BTreeSet<Signal>) -> Option<Signal> {
    if ev.kind == Kind::Metric && matches!(ev.mval, MVal::Number | MVal::Sequence) && signals.contains(&Signal::Metrics) {
        return Some(Signal::Metrics);
    }
    if ev.kind == Kind::Span && ev.ext.is_range() && signals.contains(&Signal::Traces) {
        return Some(Signal::Traces);
    }
    if signals.contains(&Signal::Logs) {
        return Some(Signal::Logs);
    }
    None
}

/// A property value whose `Display` implementation emits another event through the same emitter (once).
struct Reenter<'a> {
    otlp: &'a emit_otlp::Otlp,
    ev: &'a Ev,
    n: u64,
    done: std::cell::Cell<bool>,
}

impl std::fmt::Display for Reenter<'_> {
    fn fmt(&self, f: &mut std::fmt::Formatter) -> std::fmt::Result {
        if !self.done.replace(true) {
            emit_one(self.otlp, self.ev, self.n, None);
        }
        f.write_str("a value that logs while it is shown")
    }
}

fn emit_one(otlp: &emit_otlp::Otlp, ev: &Ev, n: u64, nested: Option<(&Ev, u64)>) {
    let base = Duration::from_secs(1_700_000_000 + n);
    let ts = emit::Timestamp::from_unix(base).unwrap();
    let ts2 = emit::Timestamp::from_unix(base + Duration::from_millis(250)).unwrap();
    let extent: Option<emit::Extent> = match ev.ext {
        Ext::None => None,
        Ext::Point => Some(emit::Extent::point(ts)),
        Ext::Range => Some(emit::Extent::range(ts..ts2)),
        Ext::EmptyRange => Some(emit::Extent::range(ts..ts)),
        Ext::BackRange => Some(emit::Extent::range(ts2..ts)),
    };
    let filler: String = if ev.payload == 0 {
        String::new()
    } else if ev.noisy {
        let mut x = 0x9E37_79B9_7F4A_7C15u64 ^ (n + 1).wrapping_mul(0xD1B5_4A32_D192_ED03);
        let alphabet = b"abcdefghijklmnopqrstuvwxyzABCDEFGHIJKLMNOPQRSTUVWXYZ0123456789+/";
        (0..ev.payload)
            .map(|_| {
                x ^= x << 13;
                x ^= x >> 7;
                x ^= x << 17;
                alphabet[(x >> 58) as usize] as char
            })
            .collect()
    } else {
        "abcdefghijklmnopqrstuvwxyz0123456789".chars().cycle().take(ev.payload).collect()
    };
    let seq = [1.0f64, 2.0, 3.5];
    let seq_int = [1u64, 2, 3];
    let trace_id = emit::TraceId::from_u128(0x0123_4567_89ab_cdef_0123_4567_89ab_cdefu128 + n as u128).unwrap();
    let span_id = emit::SpanId::from_u64(0x0123_4567_89ab_cdefu64 + n).unwrap();
    let (trace_text, span_text) = (trace_id.to_string(), span_id.to_string());
    // properties built by the macros are sorted at compile time and looked up by binary search: keys that are keywords
    // (written `r#async`) sort by their plain name
    if ev.macro_raw && !ev.shadow && nested.is_none() && ev.agg == Some("count") {
        let tpl = emit::Template::literal("simulated event");
        match (ev.kind, ev.mval) {
            (Kind::Span, _) => {
                let props = emit::props! {
                    #[emit::as_value] marker: ev.marker.as_str(),
                    evt_kind: "span",
                    span_name: "sim span",
                    #[emit::as_value] trace_id: trace_id,
                    #[emit::as_value] span_id: span_id,
                    r#async: true,
                };
                otlp.emit(&emit::Event::new(emit::path!("sim::otlp"), tpl, extent, props));
                return;
            }
            (Kind::Metric, MVal::Number) => {
                let props = emit::props! {
                    #[emit::as_value] marker: ev.marker.as_str(),
                    evt_kind: "metric",
                    metric_name: "sim_metric",
                    metric_agg: "count",
                    metric_value: 42,
                    r#async: true,
                    service: "sim",
                };
                otlp.emit(&emit::Event::new(emit::path!("sim::otlp"), tpl, extent, props));
                return;
            }
            _ => {}
        }
    }
    let reenter = nested.map(|(ev, n)| Reenter { otlp, ev, n, done: std::cell::Cell::new(false) });
    let mut props: Vec<(&str, emit::Value)> = vec![("marker", emit::Value::from(ev.marker.as_str()))];
    if !filler.is_empty() {
        props.push(("payload", emit::Value::from(filler.as_str())));
    }
    // the kind arrives typed, as text, as an owned copy of the typed value (what a buffering wrapper hands on: the
    // concrete type is erased), or as something that merely displays as the kind's name
    static KIND_SPAN: emit::Kind = emit::Kind::Span;
    static KIND_METRIC: emit::Kind = emit::Kind::Metric;
    let owned_span = emit::Value::from_any(&KIND_SPAN).to_owned();
    let owned_metric = emit::Value::from_any(&KIND_METRIC).to_owned();
    fn kind_value<'a>(n: u64, typed: &'static emit::Kind, owned: &'a emit::value::OwnedValue, name: &'static str) -> emit::Value<'a> {
        match n % 4 {
            0 => emit::Value::from_any(typed),
            1 => emit::Value::from(name),
            2 => owned.by_ref(),
            _ => emit::Value::capture_display(typed),
        }
    }
    match ev.kind {
        Kind::None => {}
        Kind::Span => {
            props.push(("evt_kind", kind_value(n, &KIND_SPAN, &owned_span, "span")));
            props.push(("span_name", emit::Value::from("sim span")));
            // a span is a span with or without ids (built by hand outside any span context, or through a runtime
            // without a random source); ids come typed, as text, one without the other, or as text that is no id
            match (n / 4) % 7 {
                0 | 1 => {
                    props.push(("trace_id", emit::Value::from_any(&trace_id)));
                    props.push(("span_id", emit::Value::from_any(&span_id)));
                }
                2 => {
                    props.push(("trace_id", emit::Value::from(trace_text.as_str())));
                    props.push(("span_id", emit::Value::from(span_text.as_str())));
                }
                3 => props.push(("trace_id", emit::Value::from_any(&trace_id))),
                4 => props.push(("span_id", emit::Value::from_any(&span_id))),
                5 => {}
                _ => {
                    props.push(("trace_id", emit::Value::from("not-a-trace-id")));
                    props.push(("span_id", emit::Value::from(17i64)));
                }
            }
        }
        Kind::Metric => {
            props.push(("evt_kind", kind_value(n, &KIND_METRIC, &owned_metric, "metric")));
            props.push(("metric_name", emit::Value::from("sim_metric")));
            // "@..." stands for an aggregation that is present but not a string (the value's type is the producer's business)
            struct ShownAgg;
            impl std::fmt::Display for ShownAgg {
                fn fmt(&self, f: &mut std::fmt::Formatter) -> std::fmt::Result {
                    f.write_str("count")
                }
            }
            static SHOWN: ShownAgg = ShownAgg;
            if let Some(agg) = ev.agg {
                props.push((
                    "metric_agg",
                    match agg {
                        "@null" => emit::Value::null(),
                        "@int" => emit::Value::from(3i64),
                        "@bool" => emit::Value::from(true),
                        "@display" => emit::Value::capture_display(&SHOWN),
                        text => emit::Value::from(text),
                    },
                ));
            }
            match ev.mval {
                // numbers come in every numeric type
                MVal::Number => props.push((
                    "metric_value",
                    match n % 6 {
                        0 => emit::Value::from(42i64),
                        1 => emit::Value::from(1.5f64),
                        2 => emit::Value::from(u64::MAX),
                        3 => emit::Value::from(-7i32),
                        4 => emit::Value::from(0u8),
                        _ => emit::Value::from(i128::from(i64::MAX) + 1),
                    },
                )),
                MVal::Sequence => props.push((
                    "metric_value",
                    if n % 2 == 0 { emit::Value::capture_sval(&seq) } else { emit::Value::capture_sval(&seq_int) },
                )),
                MVal::Text => props.push(("metric_value", emit::Value::from("not a number"))),
                MVal::Missing => {}
            }
        }
        Kind::Unknown => props.push(("evt_kind", emit::Value::from("something_else"))),
    }
    // Shadowed well-known keys: later values of a key that already has its first, effective value. They sit either in
    // the same property list, or in a second list chained behind the first with `and_props` - which is how an event
    // meets the ambient context on its way through a runtime.
    let mut behind: Vec<(&str, emit::Value)> = Vec::new();
    let chained = ev.shadow && n % 2 == 1;
    if ev.shadow {
        let into: &mut Vec<(&str, emit::Value)> = if chained { &mut behind } else { &mut props };
        // only keys that already have a (first, effective) value can be shadowed
        match ev.kind {
            Kind::None => {}
            Kind::Metric => into.push(("evt_kind", emit::Value::from_any(&emit::Kind::Span))),
            Kind::Span => into.push(("evt_kind", emit::Value::from_any(&emit::Kind::Metric))),
            // behind a kind nobody knows: a kind that would qualify the event for another signal if it counted
            Kind::Unknown => {
                if matches!(ev.ext, Ext::Range) {
                    into.push(("evt_kind", emit::Value::from("span")));
                    into.push(("span_name", emit::Value::from("shadow")));
                } else {
                    into.push(("evt_kind", emit::Value::from_any(&emit::Kind::Metric)));
                    into.push(("metric_name", emit::Value::from("shadow_metric")));
                    into.push(("metric_agg", emit::Value::from("count")));
                    into.push(("metric_value", emit::Value::from(1i64)));
                }
            }
        }
        if ev.kind == Kind::Metric && ev.mval != MVal::Missing {
            into.push(("metric_value", match ev.mval {
                MVal::Number | MVal::Sequence => emit::Value::from("n/a"),
                _ => emit::Value::from(42i64),
            }));
        }
        if ev.kind == Kind::Metric && ev.agg.is_some() {
            into.push(("metric_agg", emit::Value::from("sum")));
        }
    }
    // several scopes in one batch: requests group their items by module
    let mdl = match n % 3 {
        0 => emit::path!("sim::otlp"),
        1 => emit::path!("other_scope"),
        _ => emit::path!("sim::otlp::nested::deeper"),
    };
    if let Some(r) = reenter.as_ref() {
        props.push(("note", emit::Value::from_display(r)));
    }
    if chained {
        use emit::Props as _;
        let evt = emit::Event::new(mdl, emit::Template::literal("simulated event"), extent, (&props[..]).and_props(&behind[..]));
        otlp.emit(&evt);
    } else {
        let evt = emit::Event::new(mdl, emit::Template::literal("simulated event"), extent, &props[..]);
        otlp.emit(&evt);
    }
    if let Some(r) = reenter.as_ref() {
        if !r.done.get() {
            // nothing looked at the value (no configured signal takes the outer event): the inner event is emitted all the same
            emit_one(otlp, r.ev, r.n, None);
        }
    }
}

// ---------------------------------------------------------------------------------------------
// The run

#[derive(Clone, Debug)]
enum Step {
    Emit(usize),
    Flush(u64),
    Sleep(u64),
    /// emit events `[from, to)` back to back, then sample the channel's metrics
    Burst(usize, usize),
}

impl Engine for OtlpSim {
    fn name(&self) -> &'static str {
        if self.focus == "C14" {
            "otlp-routing"
        } else {
            "otlp-delivery"
        }
    }

    fn real_vs_stub(&self) -> Json {
        json!({
            "real": ["emit_otlp::Otlp::{emit, blocking_flush, drop}", "logs / traces / metrics event and request encoders (protobuf and JSON)", "Channel request splitting by size", "OtlpTransport::send / send_batch", "HttpConnection (poisoning, request timeout, gzip, gRPC framing)", "hyper http1 / http2 client connections", "h2", "flate2", "emit_batcher channel + receiver per signal, sync::blocking_flush"],
            "simulated": ["TCP (in-memory SimStream with bounded buffer, seeded chunking, reset)", "tokio runtime / timers / spawn (single-threaded executor on a simulated thread, poll order from the seed, virtual clock)", "collector (scripted HTTP/1.1 server and h2 gRPC server)", "thread scheduling of the emitting / flushing client thread vs the worker (baton passing)"],
            "not_exercised": ["TLS", "real sockets", "tokio's own scheduler"]
        })
    }

    fn rule(&self) -> &'static str {
        if self.focus == "C14" {
            "one run = one subset of the three signals (all eight occur) x transport per signal x a generated event stream over kind {none, span, metric, unknown} x extent {none, point, range, empty range, backwards range} x metric value {number, numeric sequence, text, missing}, fault-free or with collector faults / a dead host; the event-shape dimension is ordinary seeded generation, simulation contributes the observation point (collector endpoints after worker, transport and retries) and the outage configurations; non-trivial = at least two signals configured or a fault fired; distinct = distinct history hash"
        } else {
            "one run = 1-40 events (a fraction with 100-300 KiB payloads so one batch spans several requests) through 1-3 signals over HTTP/JSON, HTTP/protobuf or gRPC with gzip on/off, against a collector that per request acknowledges, rejects (4xx/5xx, grpc-status), closes before or after reading, resets mid-body, stalls until the 30 s client timeout, answers slowly, refuses connections, is down forever for one signal, or (one run in eight) rejects 11-23 requests of one signal in a row so that batches run out of retries; non-trivial = a fault fired, a batch was split into several requests, or more than one signal carried events; distinct = distinct history hash"
        }
    }

    fn shard_over_processes(&self) -> bool {
        true
    }

    fn run(&self, ch: &mut Choices, ctx: &RunCtx) -> Outcome {
        let c14 = self.focus == "C14";
        // --- configuration
        // overflow mode (rare, expensive): one signal, its first request stalled until the client's timeout, and a burst
        // of more events than the channel's 10 000-item capacity behind it
        let overflow = !c14 && ch.chance(1, 120);
        // (any one of the three signals: each has its own channel, and its own queue metrics under its own name)
        let overflow_signal: u32 = if overflow { *ch.pick(&[1u32, 1, 2, 4]) } else { 0 };
        let subset: u32 = if overflow {
            overflow_signal
        } else if c14 {
            ch.choose(8)
        } else {
            1 + ch.choose(7)
        };
        let mut signals = BTreeSet::new();
        for (bit, s) in [(1, Signal::Logs), (2, Signal::Traces), (4, Signal::Metrics)] {
            if subset & bit != 0 {
                signals.insert(s);
            }
        }
        let dead_host: Option<Signal> = if signals.len() >= 2 && ch.chance(1, 6) {
            Some(*signals.iter().nth(ch.choose(signals.len() as u32) as usize).unwrap())
        } else {
            None
        };
        let mut hosts = Vec::new();
        for s in &signals {
            let transport = *ch.pick(&[Transport::HttpProto, Transport::HttpJson, Transport::GrpcProto]);
            hosts.push(HostCfg {
                signal: *s,
                transport,
                gzip: ch.chance(1, 2),
                host: format!("{}.collector.sim", format!("{s:?}").to_lowercase()),
                down_forever: dead_host == Some(*s),
            });
        }
        let fault_budget = match ch.weighted(&[4, 4, 2]) {
            _ if overflow => 0,
            0 => 0,
            1 => 1 + ch.choose(3),
            _ => 4 + ch.choose(6),
        };
        // (routing runs too: a batch that is split into several requests must still export every event exactly once)
        let big = !overflow && if c14 { ch.chance(1, 8) } else { ch.chance(1, 4) };
        // long-outage mode: one signal's collector rejects more requests in a row than one batch's retry budget
        // (1 + 10 attempts) covers - 11 exactly, one or two more (the next batch meets the tail of the outage), or two
        // budgets' worth. What is given up after its 11 attempts is legitimately lost; nothing else is.
        let long_outage: Option<(Signal, u32)> = if !c14 && !overflow && !big && ch.chance(1, 8) {
            let live: Vec<Signal> = signals.iter().copied().filter(|s| dead_host != Some(*s)).collect();
            let s = live[ch.choose(live.len() as u32) as usize];
            Some((s, *ch.pick(&[11u32, 12, 13, 12, 22, 23])))
        } else {
            None
        };
        let n_events = if overflow {
            10_002 + ch.choose(40)
        } else if big {
            3 + ch.choose(10)
        } else {
            1 + ch.choose(if ctx.thorough { 40 } else { 16 })
        } as usize;
        let mut events = Vec::new();
        for i in 0..n_events {
            if overflow {
                events.push(Ev {
                    marker: format!("MK{:06}KM", i + 1),
                    kind: match overflow_signal {
                        2 => Kind::Span,
                        4 => Kind::Metric,
                        _ => Kind::None,
                    },
                    ext: if overflow_signal == 2 { Ext::Range } else { Ext::Point },
                    mval: MVal::Number,
                    agg: Some("count"),
                    payload: 0,
                    noisy: false,
                    shadow: false,
                    reenter: false,
                    macro_raw: false,
                });
                continue;
            }
            let kind = if c14 {
                *ch.pick(&[Kind::None, Kind::Span, Kind::Metric, Kind::Unknown])
            } else {
                *ch.pick(&[Kind::None, Kind::None, Kind::Span, Kind::Metric])
            };
            let ext = if c14 {
                *ch.pick(&[Ext::None, Ext::Point, Ext::Range, Ext::Range, Ext::EmptyRange, Ext::BackRange])
            } else if kind == Kind::Span {
                *ch.pick(&[Ext::Range, Ext::Range, Ext::Range, Ext::EmptyRange, Ext::BackRange])
            } else {
                Ext::Point
            };
            let mval = if c14 {
                *ch.pick(&[MVal::Number, MVal::Sequence, MVal::Text, MVal::Missing])
            } else {
                MVal::Number
            };
            let medium = !c14 && !big && ch.chance(1, 10) && long_outage.is_none();
            let payload = if big && c14 {
                // large enough that three events pending for one signal are split over two requests
                400_000 + ch.choose(200_000) as usize
            } else if big {
                100_000 + ch.choose(200_000) as usize
            } else if medium {
                30_000 + ch.choose(60_000) as usize
            } else {
                ch.choose(200) as usize
            };
            let noisy = (big || medium) && ch.chance(1, 2);
            let agg = if c14 {
                *ch.pick(&[
                    Some("count"),
                    Some("sum"),
                    Some("last"),
                    Some("min"),
                    Some("max"),
                    None,
                    Some("bogus"),
                    Some(""),
                    Some("@null"),
                    Some("@int"),
                    Some("@bool"),
                    Some("@display"),
                ])
            } else {
                Some("count")
            };
            events.push(Ev {
                marker: format!("MK{:06}KM", i + 1),
                kind,
                ext,
                mval,
                agg,
                payload,
                noisy,
                shadow: c14 && ch.chance(1, 5),
                reenter: !big && ch.chance(1, 10),
                macro_raw: !big && ch.chance(1, 8),
            });
        }
        // client program
        let mut steps = Vec::new();
        if overflow {
            steps.push(Step::Emit(0));
            steps.push(Step::Sleep(40));
            steps.push(Step::Burst(1, n_events));
        }
        for i in 0..if overflow { 0 } else { n_events } {
            steps.push(Step::Emit(i));
            // (during a long outage the client keeps emitting: later events form the batches behind the one given up)
            match ch.weighted(if long_outage.is_some() { &[6, 6, 2] } else { &[12, 2, 2] }) {
                0 => {}
                1 => steps.push(Step::Sleep(*ch.pick(&[1u64, 40, 800, 5000]))),
                _ => steps.push(Step::Flush(*ch.pick(&[0u64, 50, 2000, 120_000]))),
            }
        }
        let final_flush = overflow || !ch.chance(1, 4);
        let custom_headers = ch.chance(1, 3);
        // the per-signal convenience constructors (`logs_http_proto(url)` ...) instead of a transport builder
        let short_forms = ch.chance(1, 4);
        // the gRPC base URL written with a trailing slash
        let grpc_trailing_slash = ch.chance(1, 3);
        // rarely: one event that alone exceeds the 1 MiB request limit
        if !c14 && ch.chance(1, 150) && !events.is_empty() && long_outage.is_none() {
            let k = ch.choose(events.len() as u32) as usize;
            events[k].payload = 1_100_000 + ch.choose(100_000) as usize;
            events[k].noisy = false;
        }
        let max_chunk = *ch.pick(&[64 * 1024usize, 16 * 1024, 1500, 64 * 1024]);

        // --- the simulated world
        let sched = Sched::new(std::mem::replace(ch, Choices::from_record(&[])), ctx.want_trace, 400_000);
        // time only moves when nothing is runnable: with a 30 s request timeout in play, firing timers while the
        // worker is runnable makes requests "time out" at the client that the collector saw complete
        sched.lock().early_timer_pct = 0;
        // running code takes time: consecutive clock readings differ (by a nanosecond), so "elapsed" is never zero
        sched.lock().clock_reading_cost_ns = 1;
        let col = Arc::new(Collector {
            sched: sched.clone(),
            hosts: hosts.clone(),
            log: Mutex::new(Vec::new()),
            faults_left: Mutex::new(fault_budget),
            consecutive_failures: Mutex::new(BTreeMap::new()),
            split_batches: big,
            conns: AtomicU32::new(0),
            refused: AtomicU32::new(0),
            trace: Mutex::new(Vec::new()),
            fired: Mutex::new(BTreeMap::new()),
            max_chunk,
            stall_first: std::sync::atomic::AtomicBool::new(overflow),
            wedged: Mutex::new(BTreeSet::new()),
            outage: Mutex::new(long_outage),
        });
        {
            let col2 = col.clone();
            *sched.hook_wrap.lock().unwrap() = Some(Arc::new(move |inner: Arc<ThreadHooks>| -> Arc<dyn Hooks> {
                Arc::new(OtlpHooks { inner, col: col2.clone() })
            }));
        }
        let prev = simthread::enter(&sched);
        sched.log(format!(
            "config: signals={signals:?} hosts={:?} dead_host={dead_host:?} fault_budget={fault_budget} events={n_events} big={big} overflow={overflow} long_outage={long_outage:?} final_flush={final_flush} max_chunk={max_chunk}",
            hosts.iter().map(|h| format!("{:?}/{:?}/gzip={}", h.signal, h.transport, h.gzip)).collect::<Vec<_>>()
        ));

        // the real emitter
        let mut builder = emit_otlp::new();
        for h in &hosts {
            let url = |path: &str| format!("http://{}:4318{}", h.host, path);
            let transport = |path: &str| {
                let t = match h.transport {
                    Transport::GrpcProto => emit_otlp::grpc(format!("http://{}:4317{}", h.host, if grpc_trailing_slash { "/" } else { "" })).allow_compression(h.gzip),
                    _ => emit_otlp::http(url(path)).allow_compression(h.gzip),
                };
                if custom_headers {
                    t.headers([("x-api-key", "secret"), ("x-tenant", "sim"), ("x-tenant", "sim-again")])
                } else {
                    t
                }
            };
            let short = short_forms && h.gzip && !custom_headers;
            let grpc_base = format!("http://{}:4317{}", h.host, if grpc_trailing_slash { "/" } else { "" });
            builder = match (h.signal, h.transport) {
                (Signal::Logs, Transport::HttpJson) if short => builder.logs(emit_otlp::logs_http_json(url("/v1/logs"))),
                (Signal::Logs, Transport::GrpcProto) if short => builder.logs(emit_otlp::logs_grpc_proto(grpc_base)),
                (Signal::Logs, _) if short => builder.logs(emit_otlp::logs_http_proto(url("/v1/logs"))),
                (Signal::Traces, Transport::HttpJson) if short => builder.traces(emit_otlp::traces_http_json(url("/v1/traces"))),
                (Signal::Traces, Transport::GrpcProto) if short => builder.traces(emit_otlp::traces_grpc_proto(grpc_base)),
                (Signal::Traces, _) if short => builder.traces(emit_otlp::traces_http_proto(url("/v1/traces"))),
                (Signal::Metrics, Transport::HttpJson) if short => builder.metrics(emit_otlp::metrics_http_json(url("/v1/metrics"))),
                (Signal::Metrics, Transport::GrpcProto) if short => builder.metrics(emit_otlp::metrics_grpc_proto(grpc_base)),
                (Signal::Metrics, _) if short => builder.metrics(emit_otlp::metrics_http_proto(url("/v1/metrics"))),
                (Signal::Logs, Transport::HttpJson) => builder.logs(emit_otlp::logs_json(transport("/v1/logs"))),
                (Signal::Logs, _) => builder.logs(emit_otlp::logs_proto(transport("/v1/logs"))),
                (Signal::Traces, Transport::HttpJson) => builder.traces(emit_otlp::traces_json(transport("/v1/traces"))),
                (Signal::Traces, _) => builder.traces(emit_otlp::traces_proto(transport("/v1/traces"))),
                (Signal::Metrics, Transport::HttpJson) => builder.metrics(emit_otlp::metrics_json(transport("/v1/metrics"))),
                (Signal::Metrics, _) => builder.metrics(emit_otlp::metrics_proto(transport("/v1/metrics"))),
            };
        }
        let otlp = builder.resource(emit::props! { service_name: "sim" }).spawn();
        let worker_tid = sched.tid_by_name("emit_otlp_worker");

        // the client thread
        #[derive(Default)]
        struct ClientLog {
            emitted: Vec<(usize, Duration)>,
            flushes: Vec<(usize, Duration, Duration, u64, bool)>, // (#events emitted before the call, called at, returned at, timeout, result)
            discarded: Option<u64>,
            dropped_at: Option<Duration>,
            /// after the burst: (otlp_logs_queue_length, otlp_logs_queue_full_truncated)
            after_burst: Option<(Option<u64>, Option<u64>)>,
        }
        let clog = Arc::new(Mutex::new(ClientLog::default()));
        let (client_tid, client_handle) = {
            let sc = sched.clone();
            let clog = clog.clone();
            let events = events.clone();
            let want_trace = ctx.want_trace;
            sched
                .spawn(
                    "client".into(),
                    Box::new(move || {
                        let otlp = otlp;
                        let mut emitted = 0usize;
                        let mut emitted_ix: BTreeSet<usize> = BTreeSet::new();
                        for step in steps {
                            if sc.aborted() {
                                return;
                            }
                            match step {
                                Step::Emit(i) if emitted_ix.contains(&i) => {}
                                Step::Emit(i) => {
                                    sc.set_nonblocking(Some("Otlp::emit"));
                                    let nested = if events[i].reenter && i + 1 < events.len() && !emitted_ix.contains(&(i + 1)) { Some(i + 1) } else { None };
                                    let r = panic::catch_unwind(AssertUnwindSafe(|| emit_one(&otlp, &events[i], i as u64, nested.map(|j| (&events[j], j as u64)))));
                                    sc.set_nonblocking(None);
                                    if r.is_err() {
                                        let msg = crate::core::take_last_panic().unwrap_or_default();
                                        let what = format!(
                                            "Otlp::emit panicked for {}{}: {msg}; an event whose emit does not return is exported through no signal and counted nowhere",
                                            events[i].marker,
                                            nested.map(|j| format!(" (with {} emitted from inside its formatting)", events[j].marker)).unwrap_or_default()
                                        );
                                        sc.violate("C14", "emit_panicked", what.clone());
                                        sc.violate("C12", "emit_panicked", what.clone());
                                        sc.violate("C09", "emit_panicked", what.clone());
                                        sc.violate("C08", "emit_panicked", what);
                                        continue;
                                    }
                                    if let Some(j) = nested {
                                        // accepted first: it was emitted while the outer event was still being encoded
                                        emitted += 1;
                                        emitted_ix.insert(j);
                                        clog.lock().unwrap().emitted.push((j, sc.now()));
                                        sc.probe("event_emitted_from_inside_the_encoding_of_another");
                                        sc.log(format!("emitted {} from inside the formatting of {} ({:?}/{:?}/{:?})", events[j].marker, events[i].marker, events[j].kind, events[j].ext, events[j].mval));
                                    }
                                    emitted += 1;
                                    emitted_ix.insert(i);
                                    clog.lock().unwrap().emitted.push((i, sc.now()));
                                    sc.log(format!("emitted {} ({:?}/{:?}/{:?}/agg {:?}, {} payload bytes{}{})", events[i].marker, events[i].kind, events[i].ext, events[i].mval, events[i].agg, events[i].payload, if events[i].noisy { ", incompressible" } else { "" }, if events[i].shadow { ", well-known keys shadowed" } else { "" }));
                                }
                                Step::Sleep(ms) => sc.sleep(Duration::from_millis(ms)),
                                Step::Burst(from, to) => {
                                    sc.set_nonblocking(Some("Otlp::emit"));
                                    for i in from..to {
                                        emit_one(&otlp, &events[i], i as u64, None);
                                        emitted += 1;
                                        clog.lock().unwrap().emitted.push((i, sc.now()));
                                    }
                                    sc.set_nonblocking(None);
                                    use emit::metric::Source as _;
                                    let got: Mutex<(Option<u64>, Option<u64>)> = Mutex::new((None, None));
                                    otlp.metric_source().sample_metrics(emit::metric::sampler::from_fn(|m| {
                                        let v = m.value().to_string().parse::<u64>().ok();
                                        let sig = match overflow_signal {
                                            2 => "traces",
                                            4 => "metrics",
                                            _ => "logs",
                                        };
                                        if m.name().get() == format!("otlp_{sig}_queue_length") {
                                            got.lock().unwrap().0 = v;
                                        }
                                        if m.name().get() == format!("otlp_{sig}_queue_full_truncated") {
                                            got.lock().unwrap().1 = v;
                                        }
                                    }));
                                    let g = *got.lock().unwrap();
                                    sc.log(format!("burst of {} events emitted; the signal's queue_length={:?} queue_full_truncated={:?}", to - from, g.0, g.1));
                                    clog.lock().unwrap().after_burst = Some(g);
                                }
                                Step::Flush(ms) => {
                                    let t0 = sc.now();
                                    let r = simthread::with_deadline(&sc, Duration::from_millis(ms), || otlp.blocking_flush(Duration::from_millis(ms)));
                                    let t1 = sc.now();
                                    sc.log(format!("blocking_flush({ms}ms) -> {r} after {:?}", t1 - t0));
                                    clog.lock().unwrap().flushes.push((emitted, t0, t1, ms, r));
                                }
                            }
                            sc.yield_point("client_step");
                        }
                        if final_flush {
                            let t0 = sc.now();
                            let r = otlp.blocking_flush(Duration::from_secs(900));
                            let t1 = sc.now();
                            sc.log(format!("final blocking_flush(900s) -> {r} after {:?}", t1 - t0));
                            clog.lock().unwrap().flushes.push((emitted, t0, t1, 900_000, r));
                        }
                        // the discard counter
                        {
                            use emit::metric::Source as _;
                            let found: Mutex<Option<u64>> = Mutex::new(None);
                            otlp.metric_source().sample_metrics(emit::metric::sampler::from_fn(|m| {
                                if m.name() == "event_discarded" {
                                    *found.lock().unwrap() = m.value().to_string().parse().ok();
                                }
                            }));
                            clog.lock().unwrap().discarded = *found.lock().unwrap();
                        }
                        if want_trace {
                            // the emitter's own account of what happened (for whoever reads the trace; nothing is judged on it)
                            use emit::metric::Source as _;
                            let all: Mutex<Vec<String>> = Mutex::new(Vec::new());
                            otlp.metric_source().sample_metrics(emit::metric::sampler::from_fn(|m| {
                                let v = m.value().to_string();
                                if v != "0" {
                                    all.lock().unwrap().push(format!("{}={v}", m.name()));
                                }
                            }));
                            sc.log(format!("emitter metrics: {}", all.lock().unwrap().join(" ")));
                        }
                        clog.lock().unwrap().dropped_at = Some(sc.now());
                        sc.log("dropping the Otlp emitter".into());
                        drop(otlp);
                    }),
                )
                .expect("spawn client")
        };

        let mut aborted = sched.join(client_tid).is_err();
        if !aborted {
            if let Some(w) = worker_tid {
                aborted = sched.join(w).is_err();
            }
        }
        simthread::leave(prev);
        let (why, sched_violations, probes, steps_n, switches, mut trace, now) = {
            let mut st = sched.lock();
            (
                st.aborted.clone(),
                std::mem::take(&mut st.violations),
                std::mem::take(&mut st.probes),
                st.steps,
                st.switches,
                std::mem::take(&mut st.trace),
                st.now,
            )
        };
        std::mem::swap(ch, &mut sched.lock().choices);
        if !aborted {
            let _ = client_handle.join();
        } else {
            std::mem::forget(client_handle);
        }

        // --- oracle
        let mut out = Outcome::default();
        // delivery rules always belong to C12; routing rules (wrong_signal, discard_counter) to C14
        let prop: &'static str = "C12";
        for (p, r, d) in sched_violations {
            out.violate(p, r, d);
        }
        if let Some(why) = &why {
            out.violate(
                "C08",
                if why.starts_with("deadlock") { "deadlock" } else { "no_progress" },
                format!("otlp run aborted: {why}"),
            );
            out.violate(prop, "run_aborted", format!("the run did not finish: {why}"));
            out.violate("C14", "run_aborted", format!("the run did not finish: {why}"));
        }
        let log = col.log.lock().unwrap().clone();
        let cl = clog.lock().unwrap();
        let fired = col.fired.lock().unwrap().clone();
        for (k, v) in &fired {
            if *k == "response_with_body" {
                out.probes.insert(k, *v);
            } else if *k != "ack" {
                out.faults.insert(k, *v);
            }
        }
        trace.extend(col.trace.lock().unwrap().iter().cloned());

        if why.is_none() {
            let mut acked_in: BTreeMap<&str, Vec<&ReqLog>> = BTreeMap::new();
            let mut seen_in: BTreeMap<&str, Vec<&ReqLog>> = BTreeMap::new();
            for r in &log {
                for m in &r.markers {
                    seen_in.entry(m.as_str()).or_default().push(r);
                    if r.acked {
                        acked_in.entry(m.as_str()).or_default().push(r);
                    }
                }
            }
            // Long-outage mode: a batch is one request here (small events only), every failure of the outage signal
            // is a complete logged request, so the attempts a batch was given can be counted: the requests that
            // carried exactly its events. 1 + 10 failed attempts and the client may give the batch up - not before.
            const ATTEMPTS: usize = 11;
            let failed_attempts_by = |markers: &Vec<String>, until: Duration| -> usize {
                log.iter().filter(|r| !r.acked && r.body_complete && &r.markers == markers && r.at <= until).count()
            };
            // Attempts the collector cannot see: the client drops an error response without reading its body, and
            // when that body had not fully arrived the HTTP/1 connection is closed under it - the client learns of it
            // at its next attempt, which fails without any I/O and is followed by a reconnect. At most one such
            // attempt per connection, so the count of logged attempts is short by at most the number of connections.
            let unseen_attempts_max: usize = long_outage
                .map(|(s, _)| log.iter().filter(|r| r.signal == s).map(|r| r.conn).collect::<BTreeSet<_>>().len())
                .unwrap_or(0);
            let enough = ATTEMPTS.saturating_sub(unseen_attempts_max).max(2);
            // events of a batch that ran out of attempts (by the given time): legitimately lost
            let given_up_by = |marker: &str, until: Duration| -> bool {
                long_outage.is_some()
                    && log
                        .iter()
                        .filter(|r| !r.acked && r.body_complete && r.markers.iter().any(|m| m == marker))
                        .any(|r| failed_attempts_by(&r.markers, until) >= enough)
            };
            if long_outage.is_some() {
                out.probe("long_outage_mode");
                let mut batches: BTreeSet<&Vec<String>> = BTreeSet::new();
                for r in log.iter().filter(|r| !r.acked && r.body_complete) {
                    batches.insert(&r.markers);
                }
                let given_up = batches.iter().filter(|b| failed_attempts_by(b, Duration::MAX) >= enough).count();
                if given_up >= 1 {
                    out.probe("batch_given_up_after_eleven_attempts");
                }
                if given_up >= 2 {
                    out.probe("two_batches_given_up");
                }
                if batches.iter().any(|b| {
                    let n = failed_attempts_by(b, Duration::MAX);
                    n >= 1 && n < enough
                }) && given_up >= 1
                {
                    out.probe("batch_behind_a_given_up_one_failed_and_was_retried");
                }
                for b in &batches {
                    let n = failed_attempts_by(b, Duration::MAX);
                    if n > ATTEMPTS {
                        out.violate(
                            "C12",
                            "retried_beyond_budget",
                            format!("the batch {b:?} was sent {n} times to a collector that rejected it every time; the retry budget is 10 retries"),
                        );
                    }
                }
            }
            let mut any_failed: BTreeSet<Signal> = log.iter().filter(|r| !r.acked).map(|r| r.signal).collect();
            // a connection that went dark failed requests the collector never got to log
            any_failed.extend(col.wedged.lock().unwrap().iter().copied());
            let refused_any = col.refused.load(Ordering::SeqCst) > 0 || fired.contains_key("connect_refused");
            let emitted: Vec<&Ev> = cl.emitted.iter().map(|(i, _)| &events[*i]).collect();
            let last_flush_ok = cl.flushes.last().map(|f| f.4 && f.3 == 900_000).unwrap_or(false);

            // C14: each event at exactly the endpoint the reference routing names
            let mut expect_discard = 0u64;
            for ev in &emitted {
                let want = route(ev, &signals);
                if want.is_none() {
                    expect_discard += 1;
                }
                for r in seen_in.get(ev.marker.as_str()).cloned().unwrap_or_default() {
                    if Some(r.signal) != want {
                        out.violate(
                            "C14",
                            "wrong_signal",
                            format!(
                                "event {} ({:?}, extent {:?}, metric value {:?}) with signals {signals:?} configured arrived at the {:?} endpoint ({}); the rules say {want:?}",
                                ev.marker, ev.kind, ev.ext, ev.mval, r.signal, r.path
                            ),
                        );
                    }
                }
            }
            if let Some(d) = cl.discarded {
                if d != expect_discard {
                    out.violate(
                        "C14",
                        "discard_counter",
                        format!("event_discarded = {d}, but {expect_discard} emitted events had no configured signal to take them (signals {signals:?})"),
                    );
                }
            }

            // C12 (1) / (5): delivered once flushed (or drained on drop), exactly once when nothing failed
            let settled = last_flush_ok || !final_flush;
            if overflow {
                // C09 through the OTLP emitter's own channel type: bounded, newest kept, every drop counted
                out.probe("channel_overflow_mode");
                if let Some((ql, tr)) = cl.after_burst {
                    let (ql, tr) = (ql.unwrap_or(u64::MAX), tr.unwrap_or(u64::MAX));
                    if ql > 10_000 {
                        out.violate("C09", "capacity_exceeded", format!("the OTLP logs channel holds {ql} events, capacity is 10 000"));
                    }
                    if tr > 0 {
                        out.probe("channel_overflow_truncated");
                    }
                    if last_flush_ok {
                        let all: Vec<&str> = emitted.iter().map(|e| e.marker.as_str()).collect();
                        let missing: Vec<&&str> = all.iter().filter(|m| !acked_in.contains_key(**m)).collect();
                        let n = all.len() as u64;
                        let queue_start = n.saturating_sub(ql) as usize;
                        for m in &missing {
                            let idx = all.iter().position(|x| *x == **m).unwrap();
                            if idx >= queue_start {
                                out.violate(
                                    "C09",
                                    "queued_event_lost",
                                    format!("event {m} was among the {ql} events pending after the burst but was never acknowledged ({tr} truncations counted)"),
                                );
                                // an event that was accepted and not cleared by a legitimate truncation, in no
                                // acknowledged request although the final flush returned true: delivery, too
                                out.violate(
                                    prop,
                                    "accepted_after_truncation_never_exported",
                                    format!("event {m} was accepted after the queue had been truncated (it was among the last {ql} events, the queue's content when the burst ended) but is in no acknowledged request, and the final flush returned true"),
                                );
                            }
                        }
                        if tr == 0 && !missing.is_empty() {
                            out.violate("C09", "uncounted_drop", format!("{} events are missing although otlp_logs_queue_full_truncated is 0", missing.len()));
                        }
                        if missing.len() as u64 > tr.saturating_mul(10_000) {
                            out.violate("C09", "uncounted_drop", format!("{} events are missing, {tr} truncations of at most 10 000 were counted", missing.len()));
                        }
                    }
                }
            }
            for ev in &emitted {
                if overflow {
                    // events dropped by the overflow are legitimately missing; the rules above account for them
                    break;
                }
                let Some(sig) = route(ev, &signals) else { continue };
                if dead_host == Some(sig) {
                    continue;
                }
                let acks = acked_in.get(ev.marker.as_str()).map(|v| v.len()).unwrap_or(0);
                let seen = seen_in.get(ev.marker.as_str()).map(|v| v.len()).unwrap_or(0);
                if settled && acks == 0 && given_up_by(ev.marker.as_str(), Duration::MAX) {
                    out.probe("event_lost_with_its_given_up_batch");
                } else if settled && acks == 0 {
                    let (rule, how) = if last_flush_ok {
                        ("flushed_but_not_acknowledged", "the final flush returned true")
                    } else {
                        ("lost_on_drop", "the emitter was dropped without a flush and its worker has terminated")
                    };
                    let d = format!(
                        "{how}, but event {} ({sig:?}, {} payload bytes) is in no acknowledged request (it appeared in {seen} requests; {} requests reached the collector for that signal)",
                        ev.marker,
                        ev.payload,
                        log.iter().filter(|r| r.signal == sig).count()
                    );
                    out.violate(prop, rule, d.clone());
                    if c14 && any_failed.is_empty() && !refused_any {
                        // nothing failed anywhere: an event with a signal to take it that is exported through none
                        out.violate("C14", "not_exported", d.clone());
                    }
                    if rule == "lost_on_drop" {
                        out.violate("C08", rule, d.clone());
                    } else {
                        out.violate("C07", rule, d);
                    }
                }
                if !any_failed.contains(&sig) && !refused_any && seen > 1 {
                    out.violate(
                        "C12",
                        "duplicate_without_failure",
                        format!("event {} appears in {seen} requests although no request of {sig:?} failed", ev.marker),
                    );
                    if c14 {
                        out.violate(
                            "C14",
                            "exported_twice",
                            format!("event {} was exported {seen} times through {sig:?} although no request failed", ev.marker),
                        );
                    }
                }
            }
            // intermediate flushes: true => everything emitted before is acknowledged by then (or given up)
            for (n_before, _t0, t1, ms, ok) in cl.flushes.iter() {
                if !*ok || *ms == 900_000 {
                    continue;
                }
                out.probe("intermediate_flush_true");
                for (i, _) in cl.emitted.iter().take(*n_before) {
                    let ev = &events[*i];
                    let Some(sig) = route(ev, &signals) else { continue };
                    if dead_host == Some(sig) {
                        continue;
                    }
                    let acked_by_then = acked_in
                        .get(ev.marker.as_str())
                        .map(|v| v.iter().any(|r| r.done_at.map(|d| d <= *t1).unwrap_or(false)))
                        .unwrap_or(false);
                    // given up: only in long-outage mode, after 11 failed attempts - otherwise acknowledged it must be
                    if !acked_by_then && given_up_by(ev.marker.as_str(), *t1) {
                        out.probe("flush_true_after_batch_given_up");
                    } else if !acked_by_then {
                        let d = format!(
                            "blocking_flush({ms}ms) returned true at {t1:?} but event {} ({sig:?}) had not been acknowledged by then",
                            ev.marker
                        );
                        out.violate(prop, "flush_true_before_ack", d.clone());
                        out.violate("C07", "flush_true_before_ack", d);
                    }
                }
            }
            // C12 (2) + (3): after a failure the same events come again, later, on a fresh connection if the transport broke
            for sig in &signals {
                let reqs: Vec<&ReqLog> = log.iter().filter(|r| r.signal == *sig).collect();
                for pair in reqs.windows(2) {
                    let (a, b) = (pair[0], pair[1]);
                    if a.acked {
                        continue;
                    }
                    if long_outage.is_some() && a.body_complete && b.body_complete && a.markers != b.markers && failed_attempts_by(&a.markers, a.at) >= enough {
                        // `a` was the last attempt of a batch that is now given up: `b` is the next batch, not a retry
                        out.probe("next_batch_follows_a_given_up_one");
                        continue;
                    }
                    out.probe("request_retried_after_failure");
                    if a.body_complete && b.body_complete && a.markers != b.markers {
                        out.violate(
                            "C12",
                            "retry_carries_other_events",
                            format!(
                                "{sig:?}: request with {:?} failed ({:?}); the next request carries {:?} instead of the same events",
                                a.markers, a.decision, b.markers
                            ),
                        );
                    }
                    // a request the collector never finishes answering is given up by the client at its request timeout
                    // (30 s for the whole exchange, trailers included) and sent again after a back-off of at most 10 s
                    // (not judged in runs with a connection that goes dark: the attempt it swallows is in no log)
                    if matches!(a.decision, Decision::Stall | Decision::StallAfterHeaders) && b.at > a.at + Duration::from_secs(70) && !fired.contains_key("connection_wedged") {
                        out.violate(
                            "C12",
                            "stalled_request_not_given_up",
                            format!("{sig:?}: the request of {:?} got no (complete) answer ({:?}); the next attempt came at {:?}, more than the request timeout and the longest back-off later", a.at, a.decision, b.at),
                        );
                    }
                    if b.at < a.at + Duration::from_millis(500) {
                        out.violate(
                            "C12",
                            "retry_without_backoff",
                            format!("{sig:?}: request failed at {:?} ({:?}) and was re-sent at {:?}, before any back-off", a.at, a.decision, b.at),
                        );
                    }
                    // (an HTTP/2 stream reset leaves the connection itself healthy: re-using it is fine)
                    let stream_only = a.decision == Decision::ResetMidResponse && a.path.starts_with("/opentelemetry");
                    if stream_only {
                        out.probe("retry_after_grpc_stream_reset_mid_response");
                    }
                    if a.decision.transport_level() && !stream_only {
                        out.probe("retry_after_transport_failure");
                        if a.conn == b.conn {
                            out.violate(
                                "C12",
                                "broken_connection_reused",
                                format!("{sig:?}: connection {} broke ({:?}) and the next attempt arrived on the same connection", a.conn, a.decision),
                            );
                        }
                    }
                }
                if reqs.iter().any(|r| r.markers.len() >= 1) && reqs.len() >= 3 {
                    out.probe("three_or_more_requests_for_one_signal");
                }
            }
            // C12 (4): an outage of one signal does not hold up the others
            if let Some(dead) = dead_host {
                out.probe("one_signal_host_down_forever");
                for (i, at) in cl.emitted.iter() {
                    let ev = &events[*i];
                    let Some(sig) = route(ev, &signals) else { continue };
                    if sig == dead || any_failed.contains(&sig) || refused_any {
                        continue;
                    }
                    if let Some(r) = acked_in.get(ev.marker.as_str()).and_then(|v| v.first()) {
                        let took = r.done_at.unwrap_or(now).saturating_sub(*at);
                        if took > Duration::from_secs(20) {
                            out.violate(
                                "C12",
                                "outage_delays_other_signal",
                                format!("with the {dead:?} host down, event {} of {sig:?} took {took:?} to be acknowledged", ev.marker),
                            );
                        }
                    }
                }
            }
            if log.iter().filter(|r| r.acked).count() >= 2 {
                let by_sig: BTreeSet<Signal> = log.iter().filter(|r| r.acked).map(|r| r.signal).collect();
                if by_sig.len() >= 2 {
                    out.probe("two_or_more_signals_acknowledged");
                }
            }
            if big && log.iter().any(|r| r.bytes > 0) {
                let max_reqs = signals.iter().map(|s| log.iter().filter(|r| r.signal == *s).count()).max().unwrap_or(0);
                if max_reqs >= 2 {
                    out.probe("batch_spanned_several_requests");
                }
            }
        }

        for (k, v) in probes {
            *out.probes.entry(k).or_insert(0) += v;
        }
        out.probes.insert("thread_switches", switches);
        out.steps = steps_n;
        out.sim_time_ns = now.as_nanos();
        out.trace_hash = history_hash(trace.iter());
        out.nontrivial = !out.faults.is_empty() || signals.len() >= 2 || out.probes.contains_key("batch_spanned_several_requests");
        if ctx.want_trace {
            out.trace = trace;
        }
        let _ = panic::catch_unwind(AssertUnwindSafe(|| ()));
        out
    }
}
