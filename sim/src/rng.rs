//! The only source of randomness in the simulator: SplitMix64 seeding xoshiro256**.
//! Implemented here (no crate) so the stream can never change under us.

#[derive(Clone, Debug)]
pub struct Rng {
    s: [u64; 4],
}

pub fn splitmix64(state: &mut u64) -> u64 {
    *state = state.wrapping_add(0x9E37_79B9_7F4A_7C15);
    let mut z = *state;
    z = (z ^ (z >> 30)).wrapping_mul(0xBF58_476D_1CE4_E5B9);
    z = (z ^ (z >> 27)).wrapping_mul(0x94D0_49BB_1331_11EB);
    z ^ (z >> 31)
}

/// Mix a base seed, a label and an index into one run seed.
pub fn mix(seed: u64, label: &str, index: u64) -> u64 {
    let mut h = seed ^ 0xA076_1D64_78BD_642F;
    for b in label.bytes() {
        h = (h ^ b as u64).wrapping_mul(0x1000_0000_01B3);
    }
    let mut st = h ^ index.wrapping_mul(0xE703_7ED1_A0B4_28DB);
    let a = splitmix64(&mut st);
    let b = splitmix64(&mut st);
    a ^ b.rotate_left(17)
}

impl Rng {
    pub fn new(seed: u64) -> Self {
        let mut st = seed;
        let mut s = [0u64; 4];
        for slot in s.iter_mut() {
            *slot = splitmix64(&mut st);
        }
        if s == [0; 4] {
            s[0] = 1;
        }
        Rng { s }
    }

    pub fn next_u64(&mut self) -> u64 {
        let result = self.s[1].wrapping_mul(5).rotate_left(7).wrapping_mul(9);
        let t = self.s[1] << 17;
        self.s[2] ^= self.s[0];
        self.s[3] ^= self.s[1];
        self.s[1] ^= self.s[2];
        self.s[0] ^= self.s[3];
        self.s[2] ^= t;
        self.s[3] = self.s[3].rotate_left(45);
        result
    }

    /// Uniform in `0..n` (n >= 1).
    pub fn below(&mut self, n: u32) -> u32 {
        debug_assert!(n >= 1);
        ((self.next_u64() >> 32).wrapping_mul(n as u64) >> 32) as u32
    }
}

/// FNV-1a style incremental hasher used for history hashes (stable across runs and builds).
#[derive(Clone, Copy, Debug)]
pub struct Fnv(pub u64);

impl Default for Fnv {
    fn default() -> Self {
        Fnv(0xcbf2_9ce4_8422_2325)
    }
}

impl Fnv {
    pub fn new() -> Self {
        Self::default()
    }
    pub fn bytes(&mut self, b: &[u8]) {
        for &x in b {
            self.0 = (self.0 ^ x as u64).wrapping_mul(0x1000_0000_01B3);
        }
    }
    pub fn u64(&mut self, v: u64) {
        self.bytes(&v.to_le_bytes());
    }
    pub fn str(&mut self, s: &str) {
        self.bytes(s.as_bytes());
        self.bytes(&[0xff]);
    }
    pub fn finish(&self) -> u64 {
        let mut st = self.0;
        splitmix64(&mut st)
    }
}
