//! Fault-injecting in-memory filesystem implementing emit_file's (mirrored) filesystem traits.
//!
//! Per file (inode): `data` is what a reader sees now, `synced_len` the durable prefix,
//! `entry_durable` whether the directory entry survives a crash. Every call has a global index
//! and passes through `fault_at(index)`.

use std::{
    collections::{BTreeMap, BTreeSet},
    io,
    panic,
    path::{Path, PathBuf},
    sync::{Arc, Mutex},
};

use emit_file::verif::{SimFile, SimFilesystem};

use crate::core::Injected;

#[derive(Clone, Debug, PartialEq)]
pub enum Fault {
    /// The call fails with no effect.
    Err,
    /// The call fails with no effect and an error of this kind (`Interrupted`, `WouldBlock`, `TimedOut` ...): what a
    /// caller does with a failed call must not depend on how the failure is labelled, unless it retries - and then it
    /// must not give up by reporting success
    ErrOfKind(io::ErrorKind),
    /// `write` returns `Interrupted` once (legal; callers must retry).
    Eintr,
    /// `write` appends `num/den` of the buffer (at least 1 byte, fewer than all) and returns `Ok(k)`.
    ShortWrite(u32, u32),
    /// `write` appends nothing and returns `Ok(0)`.
    WriteZero,
    /// `write` appends part of the buffer, then fails.
    TornWrite(u32, u32),
    /// The process dies before / after the call takes effect (for `write`: `CrashMid` after part of it).
    CrashBefore,
    CrashAfter,
    CrashMid(u32, u32),
}

impl Fault {
    pub fn kind(&self) -> &'static str {
        match self {
            Fault::Err => "io_error",
            Fault::Eintr => "eintr",
            Fault::ErrOfKind(_) => "io_error_of_unusual_kind",
            Fault::ShortWrite(..) => "short_write",
            Fault::WriteZero => "write_zero",
            Fault::TornWrite(..) => "torn_write",
            Fault::CrashBefore => "crash_before_call",
            Fault::CrashAfter => "crash_after_call",
            Fault::CrashMid(..) => "crash_mid_write",
        }
    }
}

#[derive(Clone, Debug)]
pub struct Inode {
    pub data: Vec<u8>,
    pub synced_len: usize,
    pub entry_durable: bool,
    /// Offsets at which a write was interrupted (torn write, crash) - the only places a truncated
    /// record may end.
    pub cuts: BTreeSet<usize>,
    pub foreign: bool,
    pub name: String,
    pub created_at_op: u64,
}

#[derive(Clone, Debug, PartialEq)]
pub enum OpKind {
    CreateDirAll,
    SyncParent,
    ReadDir,
    Remove,
    OpenNew,
    OpenExisting,
    Write,
    Flush,
    Len,
    SyncAll,
}

#[derive(Clone, Debug)]
pub struct OpRec {
    pub index: u64,
    pub kind: OpKind,
    pub path: String,
    pub ok: bool,
    pub bytes: usize,
    pub fault: Option<&'static str>,
}

pub struct FsState {
    pub inodes: Vec<Inode>,
    /// path -> inode
    pub dir: BTreeMap<String, usize>,
    /// entries removed but whose removal has not been made durable: path -> inode
    pub removed_pending: BTreeMap<String, usize>,
    pub dirs: BTreeSet<String>,
    pub op: u64,
    pub log: Vec<OpRec>,
    pub faults: BTreeMap<u64, Fault>,
    pub fired: Vec<(u64, &'static str, OpKind)>,
    pub dead: bool,
    /// foreign directory entries whose names are not valid UTF-8: (directory, raw name bytes); only ever listed
    pub raw_entries: Vec<(String, Vec<u8>)>,
    /// the kind of the error the failing call in progress returns, if not the usual one for its operation
    pub next_err_kind: Option<io::ErrorKind>,
    /// files that cannot be deleted (immutable, or on a read-only mount): `remove_file` fails for them, always. Not a
    /// scripted fault: a property of the environment, like the rest of the directory's contents
    pub undeletable: BTreeSet<String>,
}

pub fn norm(path: &Path) -> String {
    let s = path.to_str().unwrap_or("<non-utf8>").replace('\\', "/");
    let s = s.strip_prefix("./").unwrap_or(&s).to_string();
    let s = s.trim_end_matches('/').to_string();
    // the current directory is the root of the simulated tree
    if s == "." {
        String::new()
    } else {
        s
    }
}

/// POSIX: an empty pathname names nothing (`open("")`, `opendir("")` fail with ENOENT).
fn enoent_if_empty(path: &Path) -> io::Result<()> {
    if path.as_os_str().is_empty() {
        Err(io::Error::new(io::ErrorKind::NotFound, "empty path (ENOENT)"))
    } else {
        Ok(())
    }
}

pub fn parent_of(path: &str) -> String {
    match path.rfind('/') {
        Some(i) => path[..i].to_string(),
        None => String::new(),
    }
}

pub fn name_of(path: &str) -> String {
    match path.rfind('/') {
        Some(i) => path[i + 1..].to_string(),
        None => path.to_string(),
    }
}

#[derive(Clone)]
pub struct SimFs {
    pub st: Arc<Mutex<FsState>>,
    /// Called before every filesystem call (outside the state lock): a scheduling / stall point
    /// for the threaded engines.
    pub on_op: Option<Arc<dyn Fn(&OpKind) + Send + Sync>>,
    /// Consulted for calls that have no scheduled fault: dynamic fault injection for the threaded engines.
    pub fault_fn: Option<Arc<dyn Fn(u64, &OpKind) -> Option<Fault> + Send + Sync>>,
}

enum Decision {
    Proceed,
    Fail,
    Fault(Fault),
}

impl SimFs {
    pub fn new() -> Self {
        SimFs {
            st: Arc::new(Mutex::new(FsState {
                inodes: Vec::new(),
                dir: BTreeMap::new(),
                removed_pending: BTreeMap::new(),
                dirs: BTreeSet::new(),
                op: 0,
                log: Vec::new(),
                faults: BTreeMap::new(),
                fired: Vec::new(),
                dead: false,
                raw_entries: Vec::new(),
                next_err_kind: None,
                undeletable: BTreeSet::new(),
            })),
            on_op: None,
            fault_fn: None,
        }
    }

    pub fn lock(&self) -> std::sync::MutexGuard<'_, FsState> {
        self.st.lock().unwrap_or_else(|e| e.into_inner())
    }

    /// Put a durable, pre-existing file into the directory (earlier runs, sibling sets, strangers).
    pub fn seed_file(&self, path: &str, content: &[u8], foreign: bool) {
        let mut st = self.lock();
        let ino = st.inodes.len();
        st.inodes.push(Inode {
            data: content.to_vec(),
            synced_len: content.len(),
            entry_durable: true,
            cuts: BTreeSet::new(),
            foreign,
            name: path.to_string(),
            created_at_op: 0,
        });
        st.dir.insert(path.to_string(), ino);
        st.dirs.insert(parent_of(path));
    }

    fn begin(&self, kind: OpKind, path: &str) -> (u64, Decision) {
        if let Some(cb) = &self.on_op {
            cb(&kind);
        }
        let mut st = self.lock();
        if st.dead {
            drop(st);
            panic::panic_any(Injected("crash"));
        }
        let index = st.op;
        st.op += 1;
        let mut fault = st.faults.remove(&index);
        if fault.is_none() {
            if let Some(f) = &self.fault_fn {
                drop(st);
                fault = f(index, &kind);
                st = self.lock();
            }
        }
        let decision = match fault {
            None => Decision::Proceed,
            Some(f) => {
                let applicable = match (&f, &kind) {
                    (Fault::Eintr | Fault::ShortWrite(..) | Fault::WriteZero | Fault::TornWrite(..) | Fault::CrashMid(..), OpKind::Write) => true,
                    (Fault::Eintr | Fault::ShortWrite(..) | Fault::WriteZero | Fault::TornWrite(..) | Fault::CrashMid(..), _) => false,
                    _ => true,
                };
                if !applicable {
                    Decision::Proceed
                } else {
                    st.fired.push((index, f.kind(), kind.clone()));
                    match f {
                        Fault::Err => Decision::Fail,
                        Fault::ErrOfKind(k) => {
                            st.next_err_kind = Some(k);
                            Decision::Fail
                        }
                        Fault::CrashBefore => {
                            st.dead = true;
                            st.log.push(OpRec {
                                index,
                                kind,
                                path: path.to_string(),
                                ok: false,
                                bytes: 0,
                                fault: Some("crash_before_call"),
                            });
                            drop(st);
                            panic::panic_any(Injected("crash"));
                        }
                        other => Decision::Fault(other),
                    }
                }
            }
        };
        (index, decision)
    }

    fn end(&self, index: u64, kind: OpKind, path: &str, ok: bool, bytes: usize, fault: Option<&'static str>, crash_after: bool) {
        let mut st = self.lock();
        st.log.push(OpRec {
            index,
            kind,
            path: path.to_string(),
            ok,
            bytes,
            fault,
        });
        if crash_after {
            st.dead = true;
            drop(st);
            panic::panic_any(Injected("crash"));
        }
    }

    fn err_for(&self, kind: &OpKind) -> io::Error {
        if let Some(k) = self.lock().next_err_kind.take() {
            return io::Error::new(k, "injected fault");
        }
        Self::err(kind)
    }

    fn err(kind: &OpKind) -> io::Error {
        let k = match kind {
            OpKind::Write | OpKind::Flush | OpKind::SyncAll => io::ErrorKind::Other,
            OpKind::OpenNew | OpKind::CreateDirAll => io::ErrorKind::PermissionDenied,
            OpKind::OpenExisting | OpKind::Remove | OpKind::ReadDir | OpKind::Len => io::ErrorKind::NotFound,
            OpKind::SyncParent => io::ErrorKind::Other,
        };
        io::Error::new(k, "injected fault")
    }

    /// The process died: apply crash semantics. `pick(n)` decides (from the choice stream or an
    /// enumeration) in `0..n`; 0 = lose everything that was not durable.
    pub fn crash(&self, pick: &mut dyn FnMut(u32) -> u32) {
        let mut st = self.lock();
        st.dead = false;
        // deletions that were not made durable may be undone
        let removed = std::mem::take(&mut st.removed_pending);
        for (path, ino) in removed {
            if pick(2) == 1 && !st.dir.contains_key(&path) {
                st.dir.insert(path, ino);
            }
        }
        // entries that were not made durable may vanish
        let paths: Vec<(String, usize)> = st.dir.iter().map(|(p, i)| (p.clone(), *i)).collect();
        for (path, ino) in paths {
            if !st.inodes[ino].entry_durable {
                if pick(2) == 0 {
                    st.dir.remove(&path);
                    continue;
                }
                st.inodes[ino].entry_durable = true;
            }
            let node = &mut st.inodes[ino];
            let unsynced = node.data.len() - node.synced_len;
            if unsynced > 0 {
                // 0: lose all of the un-synced suffix, 1: keep all of it, 2: keep a part
                let keep = match pick(3) {
                    0 => 0,
                    1 => unsynced,
                    _ => pick(unsynced as u32 + 1) as usize,
                };
                let new_len = node.synced_len + keep;
                if new_len < node.data.len() {
                    node.data.truncate(new_len);
                    node.cuts.retain(|c| *c <= new_len);
                    node.cuts.insert(new_len);
                }
            }
            node.synced_len = node.data.len();
        }
    }

    /// What would survive the worst-case crash right now: synced prefixes of durable entries.
    pub fn durable_view(&self) -> Vec<(String, Vec<u8>)> {
        let st = self.lock();
        st.dir
            .iter()
            .filter(|(_, i)| st.inodes[**i].entry_durable)
            .map(|(p, i)| (p.clone(), st.inodes[*i].data[..st.inodes[*i].synced_len].to_vec()))
            .collect()
    }

    pub fn current_view(&self) -> Vec<(String, Vec<u8>, BTreeSet<usize>, bool)> {
        let st = self.lock();
        st.dir
            .iter()
            .map(|(p, i)| {
                let n = &st.inodes[*i];
                (p.clone(), n.data.clone(), n.cuts.clone(), n.foreign)
            })
            .collect()
    }

    pub fn op_count(&self) -> u64 {
        self.lock().op
    }
}

impl SimFilesystem for SimFs {
    fn create_dir_all(&self, path: &Path) -> io::Result<()> {
        let p = norm(path);
        let (index, d) = self.begin(OpKind::CreateDirAll, &p);
        match d {
            Decision::Fail => {
                self.end(index, OpKind::CreateDirAll, &p, false, 0, Some("io_error"), false);
                Err(self.err_for(&OpKind::CreateDirAll))
            }
            d => {
                self.lock().dirs.insert(p.clone());
                let crash = matches!(d, Decision::Fault(Fault::CrashAfter));
                self.end(index, OpKind::CreateDirAll, &p, true, 0, crash.then_some("crash_after_call"), crash);
                Ok(())
            }
        }
    }

    fn sync_parent(&self, path: &Path) -> io::Result<()> {
        let p = norm(path);
        let (index, d) = self.begin(OpKind::SyncParent, &p);
        match d {
            Decision::Fail => {
                self.end(index, OpKind::SyncParent, &p, false, 0, Some("io_error"), false);
                Err(self.err_for(&OpKind::SyncParent))
            }
            // what `StdFilesystem::sync_parent` does: open `path.parent()` and sync it; a bare file name has the
            // parent "", which cannot be opened
            _ if path.parent().map(|parent| enoent_if_empty(parent).is_err()).unwrap_or(false) => {
                self.end(index, OpKind::SyncParent, &p, false, 0, None, false);
                Err(enoent_if_empty(Path::new("")).unwrap_err())
            }
            d => {
                {
                    let mut st = self.lock();
                    let parent = parent_of(&p);
                    let inos: Vec<usize> = st
                        .dir
                        .iter()
                        .filter(|(path, _)| parent_of(path) == parent)
                        .map(|(_, i)| *i)
                        .collect();
                    for i in inos {
                        st.inodes[i].entry_durable = true;
                    }
                    st.removed_pending.retain(|path, _| parent_of(path) != parent);
                }
                let crash = matches!(d, Decision::Fault(Fault::CrashAfter));
                self.end(index, OpKind::SyncParent, &p, true, 0, crash.then_some("crash_after_call"), crash);
                Ok(())
            }
        }
    }

    fn read_dir_files(&self, path: &Path) -> io::Result<Vec<PathBuf>> {
        let p = norm(path);
        let (index, d) = self.begin(OpKind::ReadDir, &p);
        match d {
            Decision::Fail => {
                self.end(index, OpKind::ReadDir, &p, false, 0, Some("io_error"), false);
                Err(self.err_for(&OpKind::ReadDir))
            }
            _ if enoent_if_empty(path).is_err() => {
                self.end(index, OpKind::ReadDir, &p, false, 0, None, false);
                Err(enoent_if_empty(path).unwrap_err())
            }
            d => {
                let list: Vec<PathBuf> = {
                    let st = self.lock();
                    st.dir
                        .keys()
                        .filter(|f| parent_of(f) == p)
                        .map(|f| {
                            // hand back what std would: the directory as given, joined with the name
                            let mut pb = PathBuf::from(path);
                            pb.push(name_of(f));
                            pb
                        })
                        .chain(st.raw_entries.iter().filter(|(d, _)| *d == p).map(|(_, raw)| {
                            use std::os::unix::ffi::OsStrExt;
                            let mut pb = PathBuf::from(path);
                            pb.push(std::ffi::OsStr::from_bytes(raw));
                            pb
                        }))
                        .collect()
                };
                let crash = matches!(d, Decision::Fault(Fault::CrashAfter));
                self.end(index, OpKind::ReadDir, &p, true, 0, crash.then_some("crash_after_call"), crash);
                Ok(list)
            }
        }
    }

    fn remove_file(&self, path: &Path) -> io::Result<()> {
        let p = norm(path);
        let (index, d) = self.begin(OpKind::Remove, &p);
        match d {
            Decision::Fail => {
                self.end(index, OpKind::Remove, &p, false, 0, Some("io_error"), false);
                Err(self.err_for(&OpKind::Remove))
            }
            _ if self.lock().undeletable.contains(&p) => {
                self.end(index, OpKind::Remove, &p, false, 0, Some("immutable_file"), false);
                Err(io::Error::new(io::ErrorKind::PermissionDenied, "operation not permitted"))
            }
            d => {
                let removed = {
                    let mut st = self.lock();
                    match st.dir.remove(&p) {
                        Some(ino) => {
                            if st.inodes[ino].entry_durable {
                                st.removed_pending.insert(p.clone(), ino);
                            }
                            true
                        }
                        None => false,
                    }
                };
                let crash = matches!(d, Decision::Fault(Fault::CrashAfter));
                self.end(index, OpKind::Remove, &p, removed, 0, crash.then_some("crash_after_call"), crash);
                if removed {
                    Ok(())
                } else {
                    Err(io::Error::new(io::ErrorKind::NotFound, "no such file"))
                }
            }
        }
    }

    fn open_new(&self, path: &Path) -> io::Result<Box<dyn SimFile>> {
        let p = norm(path);
        let (index, d) = self.begin(OpKind::OpenNew, &p);
        match d {
            Decision::Fail => {
                self.end(index, OpKind::OpenNew, &p, false, 0, Some("io_error"), false);
                Err(self.err_for(&OpKind::OpenNew))
            }
            d => {
                let r = {
                    let mut st = self.lock();
                    if st.dir.contains_key(&p) {
                        Err(io::Error::new(io::ErrorKind::AlreadyExists, "file exists"))
                    } else if !st.dirs.contains(&parent_of(&p)) {
                        Err(io::Error::new(io::ErrorKind::NotFound, "no such directory"))
                    } else {
                        let ino = st.inodes.len();
                        st.inodes.push(Inode {
                            data: Vec::new(),
                            synced_len: 0,
                            entry_durable: false,
                            cuts: BTreeSet::new(),
                            foreign: false,
                            name: p.clone(),
                            created_at_op: index,
                        });
                        st.dir.insert(p.clone(), ino);
                        st.removed_pending.remove(&p);
                        Ok(ino)
                    }
                };
                let crash = matches!(d, Decision::Fault(Fault::CrashAfter));
                self.end(index, OpKind::OpenNew, &p, r.is_ok(), 0, crash.then_some("crash_after_call"), crash);
                r.map(|ino| {
                    Box::new(Handle {
                        fs: self.clone(),
                        ino,
                        path: p,
                    }) as Box<dyn SimFile>
                })
            }
        }
    }

    fn open_existing(&self, path: &Path) -> io::Result<Box<dyn SimFile>> {
        let p = norm(path);
        let (index, d) = self.begin(OpKind::OpenExisting, &p);
        match d {
            Decision::Fail => {
                self.end(index, OpKind::OpenExisting, &p, false, 0, Some("io_error"), false);
                Err(self.err_for(&OpKind::OpenExisting))
            }
            d => {
                let r = {
                    let st = self.lock();
                    st.dir
                        .get(&p)
                        .copied()
                        .ok_or_else(|| io::Error::new(io::ErrorKind::NotFound, "no such file"))
                };
                let crash = matches!(d, Decision::Fault(Fault::CrashAfter));
                self.end(index, OpKind::OpenExisting, &p, r.is_ok(), 0, crash.then_some("crash_after_call"), crash);
                r.map(|ino| {
                    Box::new(Handle {
                        fs: self.clone(),
                        ino,
                        path: p,
                    }) as Box<dyn SimFile>
                })
            }
        }
    }
}

pub struct Handle {
    fs: SimFs,
    ino: usize,
    path: String,
}

fn part(n: usize, num: u32, den: u32) -> usize {
    // strictly between 0 and n when n >= 2
    if n <= 1 {
        return 0;
    }
    let k = (n as u64 * num as u64 / den.max(1) as u64) as usize;
    k.clamp(1, n - 1)
}

impl SimFile for Handle {
    fn write(&mut self, buf: &[u8]) -> io::Result<usize> {
        let (index, d) = self.fs.begin(OpKind::Write, &self.path);
        let append = |n: usize, cut: bool| {
            let mut st = self.fs.lock();
            let node = &mut st.inodes[self.ino];
            node.data.extend_from_slice(&buf[..n]);
            if cut {
                let l = node.data.len();
                node.cuts.insert(l);
            }
        };
        match d {
            Decision::Proceed | Decision::Fault(Fault::CrashAfter) => {
                append(buf.len(), false);
                let crash = matches!(d, Decision::Fault(Fault::CrashAfter));
                self.fs.end(index, OpKind::Write, &self.path, true, buf.len(), crash.then_some("crash_after_call"), crash);
                Ok(buf.len())
            }
            Decision::Fail => {
                // nothing written, but the record being written is interrupted here
                append(0, true);
                self.fs.end(index, OpKind::Write, &self.path, false, 0, Some("io_error"), false);
                Err(self.fs.err_for(&OpKind::Write))
            }
            Decision::Fault(Fault::Eintr) => {
                self.fs.end(index, OpKind::Write, &self.path, false, 0, Some("eintr"), false);
                Err(io::Error::new(io::ErrorKind::Interrupted, "injected EINTR"))
            }
            Decision::Fault(Fault::WriteZero) => {
                append(0, true);
                self.fs.end(index, OpKind::Write, &self.path, true, 0, Some("write_zero"), false);
                Ok(0)
            }
            Decision::Fault(Fault::ShortWrite(num, den)) => {
                if buf.len() < 2 {
                    append(buf.len(), false);
                    self.fs.end(index, OpKind::Write, &self.path, true, buf.len(), None, false);
                    return Ok(buf.len());
                }
                let k = part(buf.len(), num, den);
                // a short write is legal; if the caller stops here, this is where the record ends
                append(k, true);
                self.fs.end(index, OpKind::Write, &self.path, true, k, Some("short_write"), false);
                Ok(k)
            }
            Decision::Fault(Fault::TornWrite(num, den)) => {
                let k = part(buf.len(), num, den);
                append(k, true);
                self.fs.end(index, OpKind::Write, &self.path, false, k, Some("torn_write"), false);
                Err(self.fs.err_for(&OpKind::Write))
            }
            Decision::Fault(Fault::CrashMid(num, den)) => {
                let k = part(buf.len(), num, den);
                append(k, true);
                self.fs.end(index, OpKind::Write, &self.path, false, k, Some("crash_mid_write"), true);
                unreachable!()
            }
            Decision::Fault(_) => unreachable!(),
        }
    }

    fn flush(&mut self) -> io::Result<()> {
        let (index, d) = self.fs.begin(OpKind::Flush, &self.path);
        match d {
            Decision::Fail => {
                self.fs.end(index, OpKind::Flush, &self.path, false, 0, Some("io_error"), false);
                Err(self.fs.err_for(&OpKind::Flush))
            }
            d => {
                let crash = matches!(d, Decision::Fault(Fault::CrashAfter));
                self.fs.end(index, OpKind::Flush, &self.path, true, 0, crash.then_some("crash_after_call"), crash);
                Ok(())
            }
        }
    }

    fn len(&self) -> io::Result<usize> {
        let (index, d) = self.fs.begin(OpKind::Len, &self.path);
        match d {
            Decision::Fail => {
                self.fs.end(index, OpKind::Len, &self.path, false, 0, Some("io_error"), false);
                Err(self.fs.err_for(&OpKind::Len))
            }
            d => {
                let l = self.fs.lock().inodes[self.ino].data.len();
                let crash = matches!(d, Decision::Fault(Fault::CrashAfter));
                self.fs.end(index, OpKind::Len, &self.path, true, l, crash.then_some("crash_after_call"), crash);
                Ok(l)
            }
        }
    }

    fn sync_all(&mut self) -> io::Result<()> {
        let (index, d) = self.fs.begin(OpKind::SyncAll, &self.path);
        match d {
            Decision::Fail => {
                self.fs.end(index, OpKind::SyncAll, &self.path, false, 0, Some("io_error"), false);
                Err(self.fs.err_for(&OpKind::SyncAll))
            }
            d => {
                {
                    let mut st = self.fs.lock();
                    let node = &mut st.inodes[self.ino];
                    node.synced_len = node.data.len();
                }
                let crash = matches!(d, Decision::Fault(Fault::CrashAfter));
                self.fs.end(index, OpKind::SyncAll, &self.path, true, 0, crash.then_some("crash_after_call"), crash);
                Ok(())
            }
        }
    }
}
