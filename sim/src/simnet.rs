//! In-memory byte streams (`SimStream`: tokio `AsyncRead + AsyncWrite`) with a bounded buffer,
//! seeded chunking and injectable reset, plus a small single-threaded executor that runs on a
//! simulated thread (poll order from the seed; timers on the virtual clock).

use std::{
    cell::RefCell,
    collections::VecDeque,
    future::Future,
    io,
    pin::Pin,
    sync::{Arc, Mutex},
    task::{Context, Poll, Wake, Waker},
    time::Duration,
};

use tokio::io::{AsyncRead, AsyncWrite, ReadBuf};

use crate::simthread::{my_tid, SchedRef};

pub type BoxFut = Pin<Box<dyn Future<Output = ()> + Send + 'static>>;

// ---------------------------------------------------------------------------------------------
// Pipes

struct PipeState {
    buf: VecDeque<u8>,
    cap: usize,
    /// writer closed (reader sees EOF once drained)
    closed: bool,
    /// connection reset: both directions fail
    reset: bool,
    read_waker: Option<Waker>,
    write_waker: Option<Waker>,
    bytes_through: u64,
}

#[derive(Clone)]
struct Pipe(Arc<Mutex<PipeState>>);

impl Pipe {
    fn new(cap: usize) -> Self {
        Pipe(Arc::new(Mutex::new(PipeState {
            buf: VecDeque::new(),
            cap,
            closed: false,
            reset: false,
            read_waker: None,
            write_waker: None,
            bytes_through: 0,
        })))
    }
}

/// Decides chunk sizes: `pick(n)` in `0..n`.
pub type Chunker = Arc<dyn Fn(u32) -> u32 + Send + Sync>;

pub struct SimStream {
    rx: Pipe,
    tx: Pipe,
    chunker: Chunker,
    max_chunk: usize,
    pub id: u32,
}

pub fn stream_pair(id: u32, cap: usize, max_chunk: usize, chunker: Chunker) -> (SimStream, SimStream) {
    let a = Pipe::new(cap);
    let b = Pipe::new(cap);
    (
        SimStream {
            rx: a.clone(),
            tx: b.clone(),
            chunker: chunker.clone(),
            max_chunk,
            id,
        },
        SimStream {
            rx: b,
            tx: a,
            chunker,
            max_chunk,
            id,
        },
    )
}

impl SimStream {
    fn chunk(&self, avail: usize) -> usize {
        if avail <= 1 {
            return avail;
        }
        let limit = avail.min(self.max_chunk).max(1);
        // bias towards large chunks, but any size can happen
        match (self.chunker)(4) {
            0 => 1 + (self.chunker)(limit as u32) as usize,
            _ => limit,
        }
    }

    /// Abort the connection: both directions fail from now on.
    pub fn reset(&self) {
        for p in [&self.rx, &self.tx] {
            let mut st = p.0.lock().unwrap();
            st.reset = true;
            st.buf.clear();
            if let Some(w) = st.read_waker.take() {
                w.wake();
            }
            if let Some(w) = st.write_waker.take() {
                w.wake();
            }
        }
    }

    pub fn bytes_received(&self) -> u64 {
        self.rx.0.lock().unwrap().bytes_through
    }
}

impl Drop for SimStream {
    fn drop(&mut self) {
        // closing our write half: the peer reads EOF; closing our read half: the peer's writes fail
        {
            let mut st = self.tx.0.lock().unwrap();
            st.closed = true;
            if let Some(w) = st.read_waker.take() {
                w.wake();
            }
        }
        {
            let mut st = self.rx.0.lock().unwrap();
            st.closed = true;
            if let Some(w) = st.write_waker.take() {
                w.wake();
            }
        }
    }
}

impl AsyncRead for SimStream {
    fn poll_read(self: Pin<&mut Self>, cx: &mut Context<'_>, buf: &mut ReadBuf<'_>) -> Poll<io::Result<()>> {
        let this = self.get_mut();
        let mut st = this.rx.0.lock().unwrap();
        if st.reset {
            return Poll::Ready(Err(io::Error::new(io::ErrorKind::ConnectionReset, "simulated connection reset")));
        }
        if st.buf.is_empty() {
            if st.closed {
                return Poll::Ready(Ok(()));
            }
            st.read_waker = Some(cx.waker().clone());
            return Poll::Pending;
        }
        let avail = st.buf.len().min(buf.remaining());
        drop(st);
        let n = this.chunk(avail);
        let mut st = this.rx.0.lock().unwrap();
        let n = {
            let (front, _) = st.buf.as_slices();
            let n = n.min(front.len()).max(1).min(front.len());
            buf.put_slice(&front[..n]);
            n
        };
        st.buf.drain(..n);
        st.bytes_through += n as u64;
        if let Some(w) = st.write_waker.take() {
            w.wake();
        }
        Poll::Ready(Ok(()))
    }
}

impl AsyncWrite for SimStream {
    fn poll_write(self: Pin<&mut Self>, cx: &mut Context<'_>, data: &[u8]) -> Poll<io::Result<usize>> {
        let this = self.get_mut();
        let st = this.tx.0.lock().unwrap();
        if st.reset {
            return Poll::Ready(Err(io::Error::new(io::ErrorKind::ConnectionReset, "simulated connection reset")));
        }
        if st.closed {
            return Poll::Ready(Err(io::Error::new(io::ErrorKind::BrokenPipe, "simulated peer closed")));
        }
        let room = st.cap.saturating_sub(st.buf.len());
        if room == 0 {
            drop(st);
            let mut st = this.tx.0.lock().unwrap();
            st.write_waker = Some(cx.waker().clone());
            return Poll::Pending;
        }
        drop(st);
        let n = this.chunk(room.min(data.len()));
        let mut st = this.tx.0.lock().unwrap();
        st.buf.extend(&data[..n]);
        if let Some(w) = st.read_waker.take() {
            w.wake();
        }
        Poll::Ready(Ok(n))
    }

    fn poll_flush(self: Pin<&mut Self>, _: &mut Context<'_>) -> Poll<io::Result<()>> {
        Poll::Ready(Ok(()))
    }

    fn poll_shutdown(self: Pin<&mut Self>, _: &mut Context<'_>) -> Poll<io::Result<()>> {
        let this = self.get_mut();
        let mut st = this.tx.0.lock().unwrap();
        st.closed = true;
        if let Some(w) = st.read_waker.take() {
            w.wake();
        }
        Poll::Ready(Ok(()))
    }
}

// ---------------------------------------------------------------------------------------------
// Executor

pub struct ExecShared {
    incoming: Mutex<Vec<BoxFut>>,
    ready: Mutex<VecDeque<usize>>,
}

thread_local! {
    static CUR_EXEC: RefCell<Option<Arc<ExecShared>>> = const { RefCell::new(None) };
}

/// Spawn onto the executor of the calling thread.
pub fn spawn_local(task: BoxFut) -> bool {
    CUR_EXEC.with(|c| match c.borrow().as_ref() {
        Some(ex) => {
            ex.incoming.lock().unwrap().push(task);
            true
        }
        None => false,
    })
}

struct TaskWaker {
    id: usize,
    shared: Arc<ExecShared>,
}

impl Wake for TaskWaker {
    fn wake(self: Arc<Self>) {
        self.shared.ready.lock().unwrap().push_back(self.id);
    }
}

/// Run `main` and everything it spawns to completion on the calling simulated thread.
pub fn run_executor(sched: &SchedRef, main: BoxFut) {
    let shared = Arc::new(ExecShared {
        incoming: Mutex::new(Vec::new()),
        ready: Mutex::new(VecDeque::new()),
    });
    CUR_EXEC.with(|c| *c.borrow_mut() = Some(shared.clone()));
    let mut tasks: Vec<Option<BoxFut>> = vec![Some(main)];
    shared.ready.lock().unwrap().push_back(0);
    let _ = my_tid();
    loop {
        for f in shared.incoming.lock().unwrap().drain(..) {
            tasks.push(Some(f));
            shared.ready.lock().unwrap().push_back(tasks.len() - 1);
        }
        if tasks[0].is_none() {
            break;
        }
        let mut ready: Vec<usize> = {
            let mut q = shared.ready.lock().unwrap();
            let mut v: Vec<usize> = q.drain(..).collect();
            v.sort_unstable();
            v.dedup();
            v
        };
        ready.retain(|i| tasks.get(*i).map(|t| t.is_some()).unwrap_or(false));
        if sched.aborted() {
            // the run is over; this thread is leaked where it stands
            sched.yield_point("aborted");
            return;
        }
        if ready.is_empty() {
            // nothing to do until a timer fires (fallback poll once a virtual second)
            sched.park(Some(Duration::from_secs(1)));
            continue;
        }
        let pick = ready[sched.choose(ready.len() as u32) as usize];
        for r in &ready {
            if *r != pick {
                shared.ready.lock().unwrap().push_back(*r);
            }
        }
        let waker: Waker = Arc::new(TaskWaker {
            id: pick,
            shared: shared.clone(),
        })
        .into();
        let done = {
            let fut = tasks[pick].as_mut().unwrap();
            matches!(fut.as_mut().poll(&mut Context::from_waker(&waker)), Poll::Ready(()))
        };
        if done {
            tasks[pick] = None;
        }
        sched.yield_point("executor_poll");
    }
    // the worker is finished: whatever is left is dropped, like a runtime shutting down
    drop(tasks);
    CUR_EXEC.with(|c| *c.borrow_mut() = None);
}
