//! Thread-mode scheduler: real OS threads, exactly one of which runs at any time (baton passing).
//! A thread gives up the baton only at scheduling points (the `before_lock` hooks, and the sim
//! versions of `Condvar::wait_timeout`, `thread::sleep`, thread start/exit/join that `sync.rs`
//! sees under the cfg flag). Who runs next, when a timer fires early and when a condvar wakes
//! spuriously come from the choice stream; time is virtual and only moves at timers.

use std::{
    cell::Cell,
    collections::BTreeMap,
    io,
    panic::{self, AssertUnwindSafe},
    sync::{Arc, Condvar, Mutex},
    task::Waker,
    thread,
    time::Duration,
};

use emit_batcher::verif::{self, Hooks};

use crate::{choices::Choices, core::Injected};

thread_local! {
    static MY_TID: Cell<usize> = const { Cell::new(usize::MAX) };
    /// the virtual instant by which the blocking call this thread is in must stop waiting, and the
    /// scheduling-delay credit of the thread when that call started
    static DEADLINE: Cell<Option<(Duration, Duration)>> = const { Cell::new(None) };
}

/// Run `f` (a blocking call with a timeout) and report a C08 violation if it ever starts a wait that
/// ends after call time + timeout + the time that passed while the caller was runnable but not running.
pub fn with_deadline<R>(sched: &SchedRef, timeout: Duration, f: impl FnOnce() -> R) -> R {
    let prev = DEADLINE.with(|d| d.get());
    DEADLINE.with(|d| d.set(Some((sched.now().saturating_add(timeout), sched.my_credit()))));
    let r = f();
    DEADLINE.with(|d| d.set(prev));
    r
}

pub fn my_tid() -> usize {
    MY_TID.with(|t| t.get())
}

#[derive(Clone, Debug, PartialEq)]
enum TState {
    Runnable,
    Sleeping(Duration),
    CvWait { cv: usize, until: Option<Duration> },
    Joining(usize),
    /// waiting on an application-level event (used by harness stubs); woken by `wake`
    Parked { until: Option<Duration> },
    Finished,
}

struct Parker {
    go: Mutex<bool>,
    cv: Condvar,
}

struct T {
    name: String,
    state: TState,
    parker: Arc<Parker>,
    timed_out: bool,
    handle: Option<thread::JoinHandle<()>>,
    in_nonblocking_call: Option<&'static str>,
    /// virtual time that passed while this thread was runnable but not running (a slow thread is legal)
    credit: Duration,
}

pub struct SchedState {
    threads: Vec<T>,
    pub now: Duration,
    pub choices: Choices,
    pub steps: u64,
    pub max_steps: u64,
    pub trace: Vec<String>,
    pub want_trace: bool,
    pub aborted: Option<String>,
    pub violations: Vec<(&'static str, &'static str, String)>,
    pub probes: BTreeMap<&'static str, u64>,
    pub switches: u64,
    // knobs
    pub sticky: u32,
    pub early_timer_pct: u32,
    /// code takes time: when set, every reading of the clock by the code under test is this many nanoseconds later
    /// than the previous one (on top of the virtual time), so two readings are never equal and "elapsed" is never zero
    pub clock_reading_cost_ns: u64,
    pub clock_readings: u64,
    pub spurious_pct: u32,
    last: usize,
    /// async timers registered by simulated executors: (deadline, waker)
    pub wakers: Vec<(Duration, Waker, usize)>,
}

pub struct Sched {
    pub st: Mutex<SchedState>,
    /// wraps the scheduler's hooks for every thread it starts (engines add their model steps here)
    pub hook_wrap: Mutex<Option<Arc<dyn Fn(Arc<ThreadHooks>) -> Arc<dyn Hooks> + Send + Sync>>>,
}

pub type SchedRef = Arc<Sched>;

pub struct Aborted;

impl Sched {
    pub fn new(choices: Choices, want_trace: bool, max_steps: u64) -> SchedRef {
        let mut choices = choices;
        let sticky = choices.choose(4);
        let early_timer_pct = *choices.pick(&[0u32, 0, 2, 10]);
        let spurious_pct = *choices.pick(&[0u32, 0, 5, 20]);
        let main = T {
            name: "main".into(),
            state: TState::Runnable,
            parker: Arc::new(Parker {
                go: Mutex::new(true),
                cv: Condvar::new(),
            }),
            timed_out: false,
            handle: None,
            in_nonblocking_call: None,
            credit: Duration::ZERO,
        };
        MY_TID.with(|t| t.set(0));
        Arc::new(Sched {
            st: Mutex::new(SchedState {
                threads: vec![main],
                now: Duration::ZERO,
                choices,
                steps: 0,
                max_steps,
                trace: Vec::new(),
                want_trace,
                aborted: None,
                violations: Vec::new(),
                probes: BTreeMap::new(),
                switches: 0,
                sticky,
                early_timer_pct,
                clock_reading_cost_ns: 0,
                clock_readings: 0,
                spurious_pct,
                last: 0,
                wakers: Vec::new(),
            }),
            hook_wrap: Mutex::new(None),
        })
    }

    pub fn hooks(self: &Arc<Self>) -> Arc<dyn Hooks> {
        let inner = Arc::new(ThreadHooks { sched: self.clone() });
        match self.hook_wrap.lock().unwrap().clone() {
            Some(wrap) => wrap(inner),
            None => inner,
        }
    }

    /// Virtual time that has passed so far while the calling thread was runnable but not running.
    pub fn my_credit(&self) -> Duration {
        let me = my_tid();
        self.lock().threads.get(me).map(|t| t.credit).unwrap_or_default()
    }

    pub fn tids_by_name(&self, name: &str) -> Vec<usize> {
        self.lock().threads.iter().enumerate().filter(|(_, t)| t.name == name).map(|(i, _)| i).collect()
    }

    pub fn tid_by_name(&self, name: &str) -> Option<usize> {
        self.lock().threads.iter().position(|t| t.name == name)
    }

    pub fn lock(&self) -> std::sync::MutexGuard<'_, SchedState> {
        self.st.lock().unwrap_or_else(|e| e.into_inner())
    }

    pub fn log(&self, s: String) {
        let mut st = self.lock();
        let line = format!("[{:>5} t={:?} {}] {}", st.steps, st.now, st.threads[my_tid()].name, s);
        st.trace.push(line);
    }

    pub fn violate(&self, p: &'static str, r: &'static str, d: String) {
        let mut st = self.lock();
        let line = format!("!! {p}/{r}: {d}");
        st.trace.push(line);
        if !st.violations.iter().any(|v| v.0 == p && v.1 == r) {
            st.violations.push((p, r, d));
        }
    }

    pub fn probe(&self, p: &'static str) {
        *self.lock().probes.entry(p).or_insert(0) += 1;
    }

    pub fn now(&self) -> Duration {
        self.lock().now
    }

    pub fn choose(&self, n: u32) -> u32 {
        self.lock().choices.choose(n)
    }

    pub fn chance(&self, num: u32, den: u32) -> bool {
        self.lock().choices.chance(num, den)
    }

    pub fn seq(&self) -> u64 {
        let mut st = self.lock();
        st.steps += 1;
        st.steps
    }

    /// Mark that the calling thread is inside a call that must never block (C09).
    pub fn set_nonblocking(&self, what: Option<&'static str>) {
        let me = my_tid();
        self.lock().threads[me].in_nonblocking_call = what;
    }

    // -- the core: choose who runs next; called by the baton holder with the state locked

    fn pick_next(&self, st: &mut SchedState) -> Option<usize> {
        loop {
            if st.aborted.is_some() {
                return Some(0);
            }
            st.steps += 1;
            if st.steps > st.max_steps {
                st.aborted = Some("step cap reached".into());
                return Some(0);
            }
            // spurious condvar wake-ups
            if st.spurious_pct > 0 {
                let waiting: Vec<usize> = st
                    .threads
                    .iter()
                    .enumerate()
                    .filter(|(_, t)| matches!(t.state, TState::CvWait { .. }))
                    .map(|(i, _)| i)
                    .collect();
                for i in waiting {
                    if st.choices.choose(100) < st.spurious_pct {
                        st.threads[i].state = TState::Runnable;
                        st.threads[i].timed_out = false;
                        *st.probes.entry("spurious_condvar_wakeup").or_insert(0) += 1;
                    }
                }
            }
            let runnable: Vec<usize> = st
                .threads
                .iter()
                .enumerate()
                .filter(|(_, t)| t.state == TState::Runnable)
                .map(|(i, _)| i)
                .collect();
            let next_timer: Option<Duration> = st
                .threads
                .iter()
                .filter_map(|t| match &t.state {
                    TState::Sleeping(d) => Some(*d),
                    TState::CvWait { until: Some(d), .. } => Some(*d),
                    TState::Parked { until: Some(d) } => Some(*d),
                    _ => None,
                })
                .chain(st.wakers.iter().map(|w| w.0))
                .min();
            let fire_early = !runnable.is_empty()
                && next_timer.is_some()
                && st.early_timer_pct > 0
                && st.choices.choose(100) < st.early_timer_pct;
            if runnable.is_empty() || fire_early {
                match next_timer {
                    Some(d) => {
                        if fire_early {
                            *st.probes.entry("timer_fired_while_others_runnable").or_insert(0) += 1;
                        }
                        if d > st.now {
                            let delta = d - st.now;
                            for t in st.threads.iter_mut() {
                                if t.state == TState::Runnable {
                                    t.credit += delta;
                                }
                            }
                            st.now = d;
                        }
                        let now = st.now;
                        for t in st.threads.iter_mut() {
                            let due = match &t.state {
                                TState::Sleeping(d) => *d <= now,
                                TState::CvWait { until: Some(d), .. } => *d <= now,
                                TState::Parked { until: Some(d) } => *d <= now,
                                _ => false,
                            };
                            if due {
                                t.timed_out = true;
                                t.state = TState::Runnable;
                            }
                        }
                        let due: Vec<(Waker, usize)> = {
                            let mut due = Vec::new();
                            st.wakers.retain(|(d, w, tid)| {
                                if *d <= now {
                                    due.push((w.clone(), *tid));
                                    false
                                } else {
                                    true
                                }
                            });
                            due
                        };
                        for (w, tid) in due {
                            // the waker only touches its executor's ready queue; the executor thread is unparked here
                            w.wake();
                            if let Some(t) = st.threads.get_mut(tid) {
                                if matches!(t.state, TState::Parked { .. }) {
                                    t.state = TState::Runnable;
                                    t.timed_out = false;
                                }
                            }
                        }
                        continue;
                    }
                    None => {
                        if st.threads.iter().all(|t| t.state == TState::Finished) {
                            return None;
                        }
                        let stuck: Vec<String> = st
                            .threads
                            .iter()
                            .filter(|t| t.state != TState::Finished)
                            .map(|t| format!("{}:{:?}", t.name, t.state))
                            .collect();
                        st.aborted = Some(format!("deadlock: nothing runnable, no timer pending; blocked: {stuck:?}"));
                        return Some(0);
                    }
                }
            }
            let pick = if st.sticky > 0 && runnable.contains(&st.last) && st.choices.choose(4) < st.sticky {
                st.last
            } else {
                runnable[st.choices.choose(runnable.len() as u32) as usize]
            };
            st.last = pick;
            return Some(pick);
        }
    }

    /// Hand the baton to whoever is chosen; returns when the caller holds it again.
    fn reschedule(&self, mut st: std::sync::MutexGuard<'_, SchedState>) {
        let me = my_tid();
        let next = self.pick_next(&mut st);
        let Some(next) = next else {
            return; // everything finished: only happens from a finishing thread
        };
        if next == me && st.aborted.is_none() {
            return;
        }
        if st.aborted.is_some() && me == 0 {
            // main takes over
            st.threads[0].state = TState::Runnable;
            return;
        }
        st.switches += 1;
        let my_parker = st.threads[me].parker.clone();
        let their_parker = st.threads[next].parker.clone();
        if st.aborted.is_some() {
            st.threads[0].state = TState::Runnable;
        }
        *my_parker.go.lock().unwrap() = false;
        drop(st);
        {
            let mut go = their_parker.go.lock().unwrap();
            *go = true;
            their_parker.cv.notify_one();
        }
        let mut go = my_parker.go.lock().unwrap();
        while !*go {
            go = my_parker.cv.wait(go).unwrap();
        }
    }

    fn check_abort(&self) {
        // a thread that gets the baton after an abort (only main does) learns about it through `aborted()`
    }

    pub fn aborted(&self) -> bool {
        self.lock().aborted.is_some()
    }

    fn blocking_guard(&self, st: &mut SchedState, what: &str) {
        let me = my_tid();
        if let Some(call) = st.threads[me].in_nonblocking_call {
            let name = st.threads[me].name.clone();
            if !st.violations.iter().any(|v| v.1 == "nonblocking_call_blocked") {
                st.violations.push((
                    "C09",
                    "nonblocking_call_blocked",
                    format!("{name}: `{call}` must never block but reached a blocking primitive ({what})"),
                ));
            }
        }
    }

    pub fn yield_point(&self, why: &str) {
        if my_tid() == usize::MAX {
            return;
        }
        let st = self.lock();
        let mut st = st;
        if st.aborted.is_some() && my_tid() != 0 {
            // the run is over: give the baton to main and park this thread forever (it is leaked)
            st.threads[0].state = TState::Runnable;
            let main_parker = st.threads[0].parker.clone();
            drop(st);
            {
                let mut go = main_parker.go.lock().unwrap();
                *go = true;
                main_parker.cv.notify_one();
            }
            self.park_forever();
        }
        let _ = why;
        self.reschedule(st);
        self.check_abort();
    }

    fn park_forever(&self) -> ! {
        loop {
            thread::park();
        }
    }

    pub fn sleep(&self, d: Duration) {
        let mut st = self.lock();
        let me = my_tid();
        self.blocking_guard(&mut st, "sleep");
        st.threads[me].state = TState::Sleeping(st.now + d);
        st.threads[me].timed_out = false;
        self.reschedule(st);
    }

    pub fn cv_wait(&self, cv: usize, timeout: Option<Duration>) -> bool {
        let mut st = self.lock();
        let me = my_tid();
        self.blocking_guard(&mut st, "condvar wait");
        let until = timeout.map(|t| st.now.saturating_add(t));
        st.threads[me].state = TState::CvWait { cv, until };
        st.threads[me].timed_out = false;
        self.reschedule(st);
        let st = self.lock();
        st.threads[me].timed_out
    }

    pub fn cv_notify_all(&self, cv: usize) {
        let mut st = self.lock();
        for t in st.threads.iter_mut() {
            if matches!(&t.state, TState::CvWait { cv: c, .. } if *c == cv) {
                t.state = TState::Runnable;
                t.timed_out = false;
            }
        }
    }

    /// Park the calling thread until `wake(tid)` or the timeout; returns true if it timed out.
    pub fn park(&self, timeout: Option<Duration>) -> bool {
        let mut st = self.lock();
        let me = my_tid();
        let until = timeout.map(|t| st.now.saturating_add(t));
        st.threads[me].state = TState::Parked { until };
        st.threads[me].timed_out = false;
        self.reschedule(st);
        self.lock().threads[me].timed_out
    }

    pub fn wake(&self, tid: usize) {
        let mut st = self.lock();
        if matches!(st.threads[tid].state, TState::Parked { .. }) {
            st.threads[tid].state = TState::Runnable;
            st.threads[tid].timed_out = false;
        }
    }

    pub fn register_waker(&self, deadline: Duration, waker: &Waker) {
        let tid = my_tid();
        self.lock().wakers.push((deadline, waker.clone(), tid));
    }

    pub fn spawn(self: &Arc<Self>, name: String, f: Box<dyn FnOnce() + Send + 'static>) -> io::Result<(usize, thread::JoinHandle<()>)> {
        let parker = Arc::new(Parker {
            go: Mutex::new(false),
            cv: Condvar::new(),
        });
        let tid = {
            let mut st = self.lock();
            st.threads.push(T {
                name: name.clone(),
                state: TState::Runnable,
                parker: parker.clone(),
                timed_out: false,
                handle: None,
                in_nonblocking_call: None,
                credit: Duration::ZERO,
            });
            st.threads.len() - 1
        };
        let sched = self.clone();
        let handle = thread::Builder::new().name(name).spawn(move || {
            MY_TID.with(|t| t.set(tid));
            verif::install(Some(sched.hooks()));
            {
                let mut go = parker.go.lock().unwrap();
                while !*go {
                    go = parker.cv.wait(go).unwrap();
                }
            }
            let r = panic::catch_unwind(AssertUnwindSafe(f));
            if r.is_err() {
                let msg = crate::core::take_last_panic().unwrap_or_default();
                if !msg.contains("<injected:") {
                    sched.violate("C08", "thread_panicked", format!("a simulated thread died of a panic: {msg}"));
                }
            }
            sched.thread_exit();
        })?;
        Ok((tid, handle))
    }

    fn thread_exit(&self) {
        let mut st = self.lock();
        let me = my_tid();
        st.threads[me].state = TState::Finished;
        for t in st.threads.iter_mut() {
            if t.state == TState::Joining(me) {
                t.state = TState::Runnable;
            }
        }
        let next = self.pick_next(&mut st);
        if let Some(next) = next {
            st.switches += 1;
            if st.aborted.is_some() {
                st.threads[0].state = TState::Runnable;
            }
            let their = st.threads[next].parker.clone();
            drop(st);
            let mut go = their.go.lock().unwrap();
            *go = true;
            their.cv.notify_one();
        }
    }

    /// Block until thread `tid` has finished (a scheduling point). Err if the run was aborted.
    pub fn join(&self, tid: usize) -> Result<(), Aborted> {
        loop {
            let mut st = self.lock();
            if st.aborted.is_some() {
                return Err(Aborted);
            }
            if st.threads[tid].state == TState::Finished {
                return Ok(());
            }
            let me = my_tid();
            st.threads[me].state = TState::Joining(tid);
            self.reschedule(st);
        }
    }

    pub fn thread_finished(&self, tid: usize) -> bool {
        self.lock().threads[tid].state == TState::Finished
    }

    /// Debugging aid: the scheduler's view of a thread.
    pub fn thread_state_debug(&self, tid: usize) -> String {
        format!("{:?}", self.lock().threads[tid].state)
    }

    pub fn thread_name(&self, tid: usize) -> String {
        self.lock().threads[tid].name.clone()
    }

    /// Let everything else run until nothing but timers beyond `horizon` remain or all finished.
    pub fn run_others_until_idle(&self, horizon: Duration) -> Result<(), Aborted> {
        let deadline = self.now() + horizon;
        loop {
            {
                let st = self.lock();
                if st.aborted.is_some() {
                    return Err(Aborted);
                }
                let others_alive = st.threads.iter().skip(1).any(|t| t.state != TState::Finished);
                if !others_alive || st.now >= deadline {
                    return Ok(());
                }
            }
            self.sleep(Duration::from_millis(50));
        }
    }
}

pub struct ThreadHooks {
    pub sched: SchedRef,
}

impl Hooks for ThreadHooks {
    fn before_lock(&self, site: &'static str) {
        self.sched.yield_point(site);
    }

    fn lock_contended(&self, site: &'static str) {
        self.sched.violate(
            "C09",
            "lock_held_across_yield",
            format!("the channel state lock was held by a thread that reached a scheduling point; `{site}` would wait on it"),
        );
        self.sched.violate(
            "C08",
            "lock_held_across_yield",
            format!("the channel state lock was held by a thread that reached a scheduling point; `{site}` waits for it before any timeout counts"),
        );
        {
            let mut st = self.sched.lock();
            st.aborted = Some("lock contended".into());
        }
        if my_tid() == 0 {
            panic::panic_any(Injected("abort_run"));
        }
        self.sched.yield_point("abort");
    }

    fn now(&self) -> Duration {
        let mut st = self.sched.lock();
        if st.clock_reading_cost_ns == 0 {
            return st.now;
        }
        st.clock_readings += 1;
        st.now + Duration::from_nanos(st.clock_readings * st.clock_reading_cost_ns)
    }

    fn timer(&self, deadline: Duration, waker: &Waker) {
        self.sched.register_waker(deadline, waker);
    }

    fn sleep(&self, delay: Duration) {
        self.sched.sleep(delay);
    }

    fn spawn_thread(&self, name: Option<String>, f: Box<dyn FnOnce() + Send + 'static>) -> io::Result<thread::JoinHandle<()>> {
        let (_, handle) = self.sched.spawn(name.unwrap_or_else(|| "thread".into()), f)?;
        Ok(handle)
    }

    fn condvar_wait(&self, cv: usize, timeout: Option<Duration>) -> bool {
        if let (Some((dl, credit0)), Some(t)) = (DEADLINE.with(|d| d.get()), timeout) {
            let now = self.sched.now();
            let slack = self.sched.my_credit().saturating_sub(credit0);
            let dl = dl.saturating_add(slack);
            if now.saturating_add(t) > dl.saturating_add(Duration::from_nanos(1)) {
                self.sched.violate(
                    "C08",
                    "waits_past_timeout",
                    format!(
                        "a blocking call that must return by {dl:?} starts a wait of {t:?} at {now:?} (it would sleep until {:?})",
                        now.saturating_add(t)
                    ),
                );
            }
        }
        self.sched.cv_wait(cv, timeout)
    }

    fn condvar_notify_all(&self, cv: usize) {
        self.sched.cv_notify_all(cv);
        self.sched.yield_point("notify_all");
    }
}

/// Install the scheduler's hooks on the calling (main) thread; returns what was installed before.
pub fn enter(sched: &SchedRef) -> Option<Arc<dyn Hooks>> {
    MY_TID.with(|t| t.set(0));
    verif::install(Some(sched.hooks()))
}

pub fn leave(prev: Option<Arc<dyn Hooks>>) {
    verif::install(prev);
    MY_TID.with(|t| t.set(usize::MAX));
}
