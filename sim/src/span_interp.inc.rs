// Span-program interpreter, included twice (see ctx_spans.rs): once over a plain `ThreadLocalCtxt`
// runtime (C04, C05) and once over the `emit_traceparent` runtime pieces (C18). The including
// module defines: `type TheCtxt`, `fn mk_ctxt() -> TheCtxt`, `const TP: bool`.

use std::{
    cell::Cell,
    collections::{BTreeMap, BTreeSet},
    future::Future,
    panic::{self, AssertUnwindSafe},
    pin::Pin,
    sync::{Arc, Mutex},
    task::{Context, Poll},
    time::Duration,
};

use emit::{
    span::{completion::Completion, SpanGuard},
    Ctxt, Frame, Props,
};
use emit_traceparent::Traceparent;

use crate::{
    choices::Choices,
    core::{history_hash, Injected, Outcome, RunCtx},
    lanes::{self, Lanes, Task},
};

thread_local! {
    static CUR_STRAND: Cell<u32> = const { Cell::new(0) };
    static NEXT_SAMPLE: Cell<bool> = const { Cell::new(true) };
    static NO_SAMPLER: Cell<bool> = const { Cell::new(false) };
}

fn cur_strand() -> u32 {
    CUR_STRAND.with(|c| c.get())
}

// ---------------------------------------------------------------------------------------------
// Programs

#[derive(Clone, Copy, Debug, PartialEq)]
pub enum Form {
    SyncFn,
    AsyncFn,
    NewSpanSync,
    NewSpanAsync,
    ResultFn,
    PanicLvlFn,
    /// a leveled macro with a panic level: `#[emit::info_span(panic_lvl: "warn")]` and `#[emit::debug_span(ok_lvl: .., panic_lvl: ..)]`
    LeveledPanicLvlFn,
    /// Result-aware and with a panic level: `ok_lvl`, `err_lvl`, `panic_lvl`
    ResultPanicLvlFn,
    /// leveled macro with Result-aware completion: `#[emit::info_span(ok_lvl: ..)]`
    InfoResultFn,
    /// call-site filter: `when:` overrides the runtime's filter
    WhenFn,
    /// leveled attribute macro: `#[emit::warn_span]`
    WarnFn,
    /// leveled `new_info_span!`
    NewInfoSpanSync,
    GuardFn,
    Manual,
    /// `setup:` argument whose value holds an entered ambient frame until it is dropped
    SetupFn,
    /// `#[span]` with the span id given explicitly among the properties: typed, as hex text, or as an integer
    ExplicitIdFn,
    /// a hand-made guard with the public default completion (`completion::default(..)`), its `with_tpl`,
    /// `with_lvl`, `with_panic_lvl` setters applied in an order and subset derived from the span number
    DefaultCompl,
}

#[derive(Clone, Copy, Debug, PartialEq)]
pub enum Exit {
    Fall,
    Err,
    Panic,
}

#[derive(Clone, Debug, PartialEq)]
pub enum GOp {
    WithMdl,
    WithName(u32),
    WithProps(i64),
    MapProps(i64),
    WithCompletion(u32),
    Start,
    Complete,
    CompleteWith(u32),
    Drop,
    /// `complete()` / `complete_with(..)` whose receiver (the emitter, or the completion) panics after it has seen the
    /// span; the panic is caught right around the call. The guard went into the call by value: it is dropped while the
    /// panic unwinds, and must not complete a second time
    CompleteReceiverPanics(Option<u32>),
}

/// incoming ids in effect: (trace id hex, span id hex), either may be absent
pub type Inc = (Option<String>, Option<String>);

#[derive(Clone, Debug)]
pub enum Incoming {
    /// ids pushed as ambient properties: typed values or hex strings (plain runtime)
    /// `part`: 0 both ids, 1 only the trace id, 2 only the span id (used only where no trace is active yet,
    /// so that the per-key shadowing of ambient properties stays out of the model)
    /// `repr`: how the ids are captured - 0 typed values, 1 hex text, 2 plain integers (u128 / u64)
    Ids { trace: u128, span: u64, repr: u8, part: u8 },
    /// a traceparent header pushed through `Traceparent::push` (traceparent runtime)
    Header { text: String },
}

#[derive(Clone, Debug)]
pub enum S {
    Span {
        sid: u32,
        form: Form,
        exit: Exit,
        sampled: bool,
        ops: Vec<GOp>,
        body: Arc<Vec<S>>,
    },
    Event(u32),
    Observe,
    Suspend(u8),
    Thread(Arc<Vec<S>>),
    Task(Arc<Vec<S>>),
    Incoming(Incoming, Arc<Vec<S>>),
    Propagate(u32),
    Catch(Arc<Vec<S>>),
    Panic,
}

// ---------------------------------------------------------------------------------------------
// Log

#[derive(Clone, Debug)]
pub enum Item {
    Read { strand: u32, value: Option<u64> },
    Mark { strand: u32, what: &'static str, sid: u32 },
    Sampler { strand: u32, decision: bool },
}

#[derive(Clone, Debug, Default)]
pub struct Rec {
    pub is_span: bool,
    pub sid: Option<u32>,
    pub eid: Option<u32>,
    pub trace_id: Option<String>,
    pub span_id: Option<String>,
    pub span_parent: Option<String>,
    pub extent: Option<(u64, Option<u64>)>,
    pub lvl: Option<String>,
    pub err: Option<String>,
    pub name: Option<String>,
    pub mdl: String,
    pub strand: u32,
    pub via_completion: Option<u32>,
    pub xprop: Option<i64>,
    pub msg: String,
}

#[derive(Clone, Debug)]
pub struct SpanInfo {
    pub sid: u32,
    pub strand: u32,
    /// the enabled span it is directly nested in (sid), if any
    pub parent: Option<u32>,
    /// incoming ids in effect when there is no enabled parent span: (trace hex, span hex)
    pub incoming: Option<Inc>,
    /// the model says the span passed the filter / sampler
    pub enabled: bool,
    pub started: bool,
    pub expect_records: u32,
    pub exit: Exit,
    pub form: Form,
    pub is_root: bool,
    /// a root opened directly under a half header: its parent id is not judged
    pub under_half: bool,
    pub in_unsampled: bool,
    pub cancelled: bool,
    pub expect_name: Option<String>,
    pub expect_mdl: Option<String>,
    pub expect_completion: Option<u32>,
    pub expect_xprop: Option<Option<i64>>,
    pub expect_lvl: Option<Option<&'static str>>,
    /// the rendered message, when the completion replaces the template (None inside: the span's own)
    pub expect_msg: Option<Option<String>>,
    /// the completion must carry the span's own ids (checked under C05 too: a completion that lost them is not the
    /// completion of this span)
    pub needs_own_ids: bool,
    /// the `err` a normally completed span shows (its own, if it has one); an unwound one shows the panic
    pub expect_err: Option<Option<&'static str>>,
    /// the span was actually unwound by a panic (its own or one of a nested node)
    pub unwound: bool,
    /// the span id the application gave the span explicitly (hex)
    pub explicit_span_id: Option<String>,
}

#[derive(Clone, Debug)]
pub struct Obs {
    pub strand: u32,
    pub whence: &'static str,
    pub expect_span: Option<u32>,
    pub expect_incoming: Option<Inc>,
    pub expect_unsampled: bool,
    /// directly under a pushed half header: what that header carries
    pub under_half: Option<(Option<String>, Option<String>, bool)>,
    pub got: (Option<String>, Option<String>, Option<String>),
    pub tp: (Option<String>, Option<String>, bool),
}

#[derive(Default)]
pub struct Log {
    pub trace: Vec<String>,
    pub violations: Vec<(&'static str, &'static str, String)>,
    pub probes: BTreeMap<&'static str, u64>,
    pub items: Vec<Item>,
    pub recs: Vec<Rec>,
    pub spans: Vec<SpanInfo>,
    pub obs: Vec<Obs>,
    pub events: Vec<(u32, u32, Option<u32>, Option<Inc>, bool)>,
    pub events_under_half: BTreeSet<u32>,
    pub spawned: Vec<(Task, String, u32)>,
    pub next_strand: u32,
    pub clock_pos: usize,
    pub rng: u64,
    pub cancelled_strands: BTreeSet<u32>,
    /// the receiver of the completion of this span panics once it has recorded it
    pub receiver_panics_for: Option<u32>,
}

pub type Shared = Arc<Mutex<Log>>;

fn lg(l: &Shared) -> std::sync::MutexGuard<'_, Log> {
    l.lock().unwrap_or_else(|e| e.into_inner())
}

// ---------------------------------------------------------------------------------------------
// Runtime components

#[derive(Clone)]
pub struct Recorder {
    log: Shared,
}

fn text(v: Option<emit::Value>) -> Option<String> {
    v.map(|v| v.to_string())
}

/// An id as the hex text the model speaks: typed ids and hex text render as such; an id captured as a plain integer is
/// a number (its decimal rendering is not hex text, however many digits it has) and is rendered in hex here.
fn id_text(v: Option<emit::Value>, width: usize) -> Option<String> {
    v.map(|v| match v.by_ref().cast::<u128>() {
        Some(n) => format!("{n:0width$x}"),
        // (hex text means the same in either case)
        None => v.to_string().to_lowercase(),
    })
}

fn record_event(log: &Shared, evt: &emit::Event<impl Props>, via: Option<u32>) {
    let p = evt.props();
    let is_span = p.pull::<emit::Kind, _>("evt_kind") == Some(emit::Kind::Span);
    let extent = evt.extent().map(|e| {
        let nanos = |t: &emit::Timestamp| t.to_unix().as_nanos() as u64;
        match e.as_range() {
            Some(r) => (nanos(&r.start), Some(nanos(&r.end))),
            None => (nanos(e.as_point()), None),
        }
    });
    let rec = Rec {
        is_span,
        sid: p.pull::<u32, _>("sid"),
        eid: p.pull::<u32, _>("eid"),
        trace_id: id_text(p.get("trace_id"), 32),
        span_id: id_text(p.get("span_id"), 16),
        span_parent: id_text(p.get("span_parent"), 16),
        extent,
        lvl: text(p.get("lvl")),
        err: text(p.get("err")),
        name: text(p.get("span_name")),
        mdl: evt.mdl().to_string(),
        strand: cur_strand(),
        via_completion: via,
        xprop: p.pull::<i64, _>("x"),
        msg: evt.msg().to_string(),
    };
    let mut l = lg(log);
    l.trace.push(format!(
        "  recorded {} sid={:?} eid={:?} trace={:?} span={:?} parent={:?} extent={:?} lvl={:?} err={:?} name={:?} via={:?}",
        if rec.is_span { "SPAN" } else { "event" },
        rec.sid,
        rec.eid,
        rec.trace_id,
        rec.span_id,
        rec.span_parent,
        rec.extent,
        rec.lvl,
        rec.err,
        rec.name,
        rec.via_completion
    ));
    let blow = rec.is_span && rec.sid.is_some() && l.receiver_panics_for == rec.sid && !std::thread::panicking();
    l.recs.push(rec);
    if blow {
        l.receiver_panics_for = None;
        *l.probes.entry("completion_receiver_panicked").or_insert(0) += 1;
        drop(l);
        panic::panic_any(Injected("completion_receiver"));
    }
}

impl emit::Emitter for Recorder {
    fn emit<E: emit::event::ToEvent>(&self, evt: E) {
        let evt = evt.to_event();
        record_event(&self.log, &evt, None);
    }

    fn blocking_flush(&self, _: Duration) -> bool {
        true
    }
}

#[derive(Clone)]
pub struct ScriptClock {
    log: Shared,
    script: Arc<Vec<i64>>,
}

const CLOCK_BASE: i64 = 1_700_000_000_000_000_000;

impl emit::Clock for ScriptClock {
    fn now(&self) -> Option<emit::Timestamp> {
        let mut l = lg(&self.log);
        let pos = l.clock_pos;
        l.clock_pos += 1;
        // script entries: i64::MIN = unavailable, else an offset in nanoseconds from the base
        let step = self.script[pos % self.script.len()];
        let value = if step == i64::MIN { None } else { Some((CLOCK_BASE + step) as u64) };
        l.items.push(Item::Read {
            strand: cur_strand(),
            value,
        });
        value.and_then(|v| emit::Timestamp::from_unix(Duration::from_nanos(v)))
    }
}

#[derive(Clone)]
pub struct CounterRng {
    log: Shared,
}

impl emit::Rng for CounterRng {
    fn fill<A: AsMut<[u8]>>(&self, mut arr: A) -> Option<A> {
        let mut l = lg(&self.log);
        for chunk in arr.as_mut().chunks_mut(8) {
            l.rng += 1;
            // never zero, never repeating
            let v = (0x0101_0101_0101_0100u64 + l.rng).to_le_bytes();
            chunk.copy_from_slice(&v[..chunk.len()]);
        }
        Some(arr)
    }
}

/// A completion for manual guards that records which completion instance received the span.
#[derive(Clone)]
pub struct RecCompletion {
    log: Shared,
    tag: u32,
    ctxt: TheCtxt,
}

impl Completion for RecCompletion {
    fn complete<P: Props>(&self, span: emit::Span<P>) {
        use emit::event::ToEvent as _;
        // like the default completion: the event sees the ambient context
        let evt = span.to_event();
        self.ctxt.with_current(|ambient| {
            let evt = evt.by_ref().map_props(|p| p.and_props(ambient));
            record_event(&self.log, &evt, Some(self.tag));
        });
    }
}

pub type TheFilter = Box<dyn emit::filter::ErasedFilter + Send + Sync>;
pub type Rt = emit::runtime::Runtime<Recorder, TheFilter, TheCtxt, ScriptClock, CounterRng>;

pub struct World {
    pub rt: Rt,
    pub log: Shared,
    pub in_sampled_filter: bool,
    pub no_sampler: bool,
}

impl World {
    fn log(&self, s: String) {
        lg(&self.log).trace.push(s);
    }
    fn probe(&self, p: &'static str) {
        *lg(&self.log).probes.entry(p).or_insert(0) += 1;
    }
    fn mark(&self, what: &'static str, sid: u32) {
        lg(&self.log).items.push(Item::Mark {
            strand: cur_strand(),
            what,
            sid,
        });
    }
}

// ---------------------------------------------------------------------------------------------
// The reference carried along each strand

#[derive(Clone, Debug, Default)]
pub struct Strand {
    pub id: u32,
    pub name: String,
    /// enclosing enabled spans, innermost last
    pub enabled: Vec<u32>,
    /// incoming ids in effect (trace hex, span hex), innermost last; `None` entries mask (root frames are not generated)
    pub incoming: Vec<Inc>,
    /// depth of the `enabled` stack at which each incoming entry was pushed
    pub incoming_at: Vec<usize>,
    /// inside an unsampled trace (traceparent runtime)
    pub unsampled: u32,
    /// inside a pushed half header (one id all zero): it is no parent and starts no trace, but whatever ids it does
    /// carry are the inner context's to show; ambient ids are not judged directly under it. What each pushed one
    /// carries (trace id, parent id, sampled bit), innermost last: while nothing is opened under it, that is what
    /// `Traceparent::current` has to report
    pub half: Vec<(Option<String>, Option<String>, bool)>,
}

impl Strand {
    fn innermost(&self) -> (Option<u32>, Option<Inc>) {
        // the innermost of: enabled span, incoming ids
        match (self.enabled.last(), self.incoming.last(), self.incoming_at.last()) {
            (Some(s), Some(inc), Some(at)) => {
                if *at >= self.enabled.len() {
                    (None, Some(inc.clone()))
                } else {
                    (Some(*s), None)
                }
            }
            (Some(s), _, _) => (Some(*s), None),
            (None, Some(inc), _) => (None, Some(inc.clone())),
            _ => (None, None),
        }
    }
    fn in_trace(&self) -> bool {
        !self.enabled.is_empty() || !self.incoming.is_empty() || self.unsampled > 0
    }
}

fn ids_now(w: &World) -> (Option<String>, Option<String>, Option<String>) {
    let c = emit::SpanCtxt::current(w.rt.ctxt());
    (
        c.trace_id().map(|t| t.to_string()),
        c.span_parent().map(|t| t.to_string()),
        c.span_id().map(|t| t.to_string()),
    )
}

/// A parsed header is made current either through `Traceparent::push` or through the crate-level
/// `emit_traceparent::push(traceparent, tracestate)` (what a request handler that also forwards the vendor state
/// calls); which of the two is a function of the header text, so that both occur under every kind of nesting.
fn push_header(w: &World, tp: Traceparent, text: &str) -> Frame<emit_traceparent::TraceparentCtxt> {
    let combined = text.bytes().fold(0u32, |a, b| a.wrapping_mul(31).wrapping_add(b as u32)) % 2 == 0;
    if combined {
        w.probe("header_pushed_with_its_tracestate");
        emit_traceparent::push(tp, emit_traceparent::Tracestate::new_owned_raw(format!("sim=h{}", text.len())))
    } else {
        tp.push()
    }
}

fn tp_now() -> (Option<String>, Option<String>, bool) {
    let tp = Traceparent::current();
    (
        tp.trace_id().map(|t| t.to_string()),
        tp.span_id().map(|t| t.to_string()),
        // read the flag from the rendered header, not through the library's own `is_sampled`
        flags_sampled(&tp.to_string()),
    )
}

/// The sampled bit of a rendered / incoming `traceparent` header (`vv-<trace>-<span>-ff`): bit 0 of the last byte,
/// whatever other flag bits are set (W3C: unknown bits are to be ignored, not to unset the ones that are known).
fn flags_sampled(header: &str) -> bool {
    header
        .rsplit('-')
        .next()
        .and_then(|ff| u8::from_str_radix(ff, 16).ok())
        .map(|ff| ff & 1 == 1)
        .unwrap_or(false)
}

fn observe(w: &World, st: &Strand, whence: &'static str) {
    let (es, ei) = st.innermost();
    let under_half = if es.is_none() && ei.is_none() && st.unsampled == 0 { st.half.last().cloned() } else { None };
    let o = Obs {
        strand: st.id,
        whence,
        expect_span: es,
        expect_incoming: ei,
        expect_unsampled: st.unsampled > 0,
        under_half,
        got: ids_now(w),
        tp: tp_now(),
    };
    let mut l = lg(&w.log);
    l.trace.push(format!(
        "{} observes {whence}: ids={:?} traceparent={:?} (innermost enabled span {:?}, incoming {:?}, unsampled={})",
        st.name, o.got, o.tp, o.expect_span, o.expect_incoming, o.expect_unsampled
    ));
    l.obs.push(o);
}

fn emit_event(w: &World, st: &Strand, eid: u32) {
    let (es, ei) = st.innermost();
    {
        let mut l = lg(&w.log);
        l.trace.push(format!("{} emits event {eid}", st.name));
        if !st.half.is_empty() && es.is_none() && ei.is_none() && st.unsampled == 0 {
            l.events_under_half.insert(eid);
        }
        l.events.push((eid, st.id, es, ei, st.unsampled > 0));
    }
    emit::emit!(rt: &w.rt, "event {eid}", eid);
}

fn new_span_info(w: &World, st: &Strand, sid: u32, form: Form, exit: Exit, enabled: bool, sampled: bool) -> usize {
    let (es, ei) = st.innermost();
    let is_root = !st.in_trace();
    let info = SpanInfo {
        sid,
        strand: st.id,
        parent: es,
        incoming: ei,
        enabled,
        started: true,
        expect_records: if enabled { 1 } else { 0 },
        exit,
        form,
        is_root,
        under_half: is_root && !st.half.is_empty(),
        in_unsampled: st.unsampled > 0 || (TP && is_root && !sampled && !w.no_sampler),
        cancelled: false,
        expect_name: None,
        expect_mdl: None,
        expect_completion: None,
        expect_xprop: None,
        expect_lvl: None,
        expect_msg: None,
        needs_own_ids: false,
        expect_err: None,
        unwound: false,
        explicit_span_id: None,
    };
    let mut l = lg(&w.log);
    l.trace.push(format!(
        "{} begins span {sid} ({form:?}, exit {exit:?}, model: enabled={enabled}, root={is_root})",
        st.name
    ));
    l.spans.push(info);
    l.spans.len() - 1
}

// ---------------------------------------------------------------------------------------------
// Span forms (real macro expansions)

#[derive(Debug)]
pub struct TestErr;
impl std::fmt::Display for TestErr {
    fn fmt(&self, f: &mut std::fmt::Formatter) -> std::fmt::Result {
        f.write_str("test error")
    }
}
impl std::error::Error for TestErr {}

fn body_sync(w: &Arc<World>, st: &mut Strand, sid: u32, enabled: bool, body: &Arc<Vec<S>>, exit: Exit) {
    w.mark("body_start", sid);
    if enabled {
        st.enabled.push(sid);
    } else if TP {
        st.unsampled += 1;
    }
    observe(w, st, "at span body start");
    run_sync(w, st, body);
    if exit == Exit::Panic {
        w.mark("panic", sid);
        w.probe("panic_inside_span");
        panic::panic_any(Injected("span_body"));
    }
    if enabled {
        st.enabled.pop();
    } else if TP {
        st.unsampled -= 1;
    }
    w.mark("body_end", sid);
}

async fn body_async(w: &Arc<World>, st: &mut Strand, sid: u32, enabled: bool, body: &Arc<Vec<S>>, exit: Exit) {
    w.mark("body_start", sid);
    if enabled {
        st.enabled.push(sid);
    } else if TP {
        st.unsampled += 1;
    }
    observe(w, st, "at async span body start");
    run_async(w, st, body).await;
    if exit == Exit::Panic {
        w.mark("panic", sid);
        w.probe("panic_inside_span");
        panic::panic_any(Injected("span_body"));
    }
    if enabled {
        st.enabled.pop();
    } else if TP {
        st.unsampled -= 1;
    }
    w.mark("body_end", sid);
}

#[emit::span(rt: &w.rt, "span {sid}", sid)]
fn span_sync_fn(w: &Arc<World>, st: &mut Strand, sid: u32, enabled: bool, body: &Arc<Vec<S>>, exit: Exit) {
    body_sync(w, st, sid, enabled, body, exit)
}

#[emit::span(rt: &w.rt, "span {sid}", sid)]
async fn span_async_fn(w: &Arc<World>, st: &mut Strand, sid: u32, enabled: bool, body: &Arc<Vec<S>>, exit: Exit) {
    body_async(w, st, sid, enabled, body, exit).await
}

#[emit::span(rt: &w.rt, ok_lvl: "info", err_lvl: "warn", "span {sid}", sid)]
fn span_result_fn(w: &Arc<World>, st: &mut Strand, sid: u32, enabled: bool, body: &Arc<Vec<S>>, exit: Exit) -> Result<(), TestErr> {
    body_sync(w, st, sid, enabled, body, exit);
    if exit == Exit::Err {
        return Err(TestErr);
    }
    Ok(())
}

#[emit::span(rt: &w.rt, ok_lvl: "info", err_lvl: "warn", panic_lvl: "debug", "span {sid}", sid)]
fn span_result_panic_lvl_fn(w: &Arc<World>, st: &mut Strand, sid: u32, enabled: bool, body: &Arc<Vec<S>>, exit: Exit) -> Result<(), TestErr> {
    body_sync(w, st, sid, enabled, body, exit);
    if exit == Exit::Err {
        return Err(TestErr);
    }
    Ok(())
}

#[emit::info_span(rt: &w.rt, ok_lvl: "debug", "span {sid}", sid)]
fn span_info_result_fn(w: &Arc<World>, st: &mut Strand, sid: u32, enabled: bool, body: &Arc<Vec<S>>, exit: Exit) -> Result<(), TestErr> {
    body_sync(w, st, sid, enabled, body, exit);
    if exit == Exit::Err {
        return Err(TestErr);
    }
    Ok(())
}

#[emit::span(rt: &w.rt, when: emit::filter::from_fn(move |_| when_ok), "span {sid}", sid)]
fn span_when_fn(w: &Arc<World>, st: &mut Strand, sid: u32, enabled: bool, body: &Arc<Vec<S>>, exit: Exit, when_ok: bool) {
    body_sync(w, st, sid, enabled, body, exit)
}

#[emit::info_span(rt: &w.rt, panic_lvl: "warn", "span {sid}", sid)]
fn span_info_panic_lvl_fn(w: &Arc<World>, st: &mut Strand, sid: u32, enabled: bool, body: &Arc<Vec<S>>, exit: Exit) {
    body_sync(w, st, sid, enabled, body, exit)
}

#[emit::warn_span(rt: &w.rt, "span {sid}", sid)]
fn span_warn_fn(w: &Arc<World>, st: &mut Strand, sid: u32, enabled: bool, body: &Arc<Vec<S>>, exit: Exit) {
    body_sync(w, st, sid, enabled, body, exit)
}

/// What a `setup:` argument typically returns: something that establishes ambient context before the span is created
/// (here: a frame pushed and entered by hand) and takes it down again when dropped - which has to be after the span
/// has completed and its own frame has been left.
pub struct SetupFrame {
    ctxt: TheCtxt,
    frame: Option<<TheCtxt as Ctxt>::Frame>,
}

impl SetupFrame {
    fn enter(w: &Arc<World>, sid: u32) -> Self {
        let ctxt = w.rt.ctxt().clone();
        let mut frame = ctxt.open_push(("set_up_by", sid));
        ctxt.enter(&mut frame);
        SetupFrame { ctxt, frame: Some(frame) }
    }
}

impl SetupFrame {
    /// ... or: the ids of the request being handled
    fn enter_ids(w: &Arc<World>, trace: u128, span: u64) -> Self {
        let ctxt = w.rt.ctxt().clone();
        let t = emit::TraceId::from_u128(trace).unwrap();
        let s = emit::SpanId::from_u64(span).unwrap();
        let mut frame = ctxt.open_push([("trace_id", emit::Value::from_any(&t)), ("span_id", emit::Value::from_any(&s))]);
        ctxt.enter(&mut frame);
        SetupFrame { ctxt, frame: Some(frame) }
    }
}

impl Drop for SetupFrame {
    fn drop(&mut self) {
        if let Some(mut frame) = self.frame.take() {
            self.ctxt.exit(&mut frame);
            self.ctxt.close(frame);
        }
    }
}

#[emit::span(rt: &w.rt, setup: || SetupFrame::enter(w, sid), "span {sid}", sid)]
fn span_setup_fn(w: &Arc<World>, st: &mut Strand, sid: u32, enabled: bool, body: &Arc<Vec<S>>, exit: Exit) {
    body_sync(w, st, sid, enabled, body, exit)
}

#[emit::span(rt: &w.rt, setup: || SetupFrame::enter_ids(w, trace, span), "span {sid}", sid)]
fn span_setup_ids_fn(w: &Arc<World>, st: &mut Strand, sid: u32, trace: u128, span: u64, enabled: bool, body: &Arc<Vec<S>>, exit: Exit) {
    body_sync(w, st, sid, enabled, body, exit)
}

#[emit::span(rt: &w.rt, "span {sid}", sid, span_id)]
fn span_explicit_typed_fn(w: &Arc<World>, st: &mut Strand, sid: u32, span_id: emit::SpanId, enabled: bool, body: &Arc<Vec<S>>, exit: Exit) {
    body_sync(w, st, sid, enabled, body, exit)
}

#[emit::span(rt: &w.rt, "span {sid}", sid, span_id)]
fn span_explicit_text_fn(w: &Arc<World>, st: &mut Strand, sid: u32, span_id: &str, enabled: bool, body: &Arc<Vec<S>>, exit: Exit) {
    body_sync(w, st, sid, enabled, body, exit)
}

#[emit::span(rt: &w.rt, "span {sid}", sid, span_id)]
fn span_explicit_int_fn(w: &Arc<World>, st: &mut Strand, sid: u32, span_id: u64, enabled: bool, body: &Arc<Vec<S>>, exit: Exit) {
    body_sync(w, st, sid, enabled, body, exit)
}

#[emit::span(rt: &w.rt, panic_lvl: "warn", "span {sid}", sid)]
fn span_panic_lvl_fn(w: &Arc<World>, st: &mut Strand, sid: u32, enabled: bool, body: &Arc<Vec<S>>, exit: Exit) {
    body_sync(w, st, sid, enabled, body, exit)
}

#[emit::span(rt: &w.rt, guard: span, "span {sid}", sid)]
fn span_guard_fn(w: &Arc<World>, st: &mut Strand, sid: u32, enabled: bool, body: &Arc<Vec<S>>, exit: Exit, early: bool) -> (bool, Option<bool>) {
    let is_enabled = span.is_enabled();
    body_sync(w, st, sid, enabled, body, exit);
    if early {
        let r = span.complete();
        (is_enabled, Some(r))
    } else {
        (is_enabled, None)
    }
}

// ---------------------------------------------------------------------------------------------
// Manual guard programs (C05)

fn run_manual(w: &Arc<World>, st: &mut Strand, sid: u32, enabled: bool, ops: &[GOp], info_ix: usize) {
    let rt = &w.rt;
    let completion = RecCompletion {
        log: w.log.clone(),
        tag: 0,
        ctxt: rt.ctxt().clone(),
    };
    let mut props: BTreeMap<String, i64> = BTreeMap::new();
    props.insert("sid".into(), sid as i64);
    let (guard, frame) = SpanGuard::new(
        rt.filter(),
        rt.ctxt().clone(),
        rt.clock().clone(),
        rt.rng().clone(),
        completion,
        emit::props! { sid },
        emit::path!("manual::initial"),
        format!("manual {sid}"),
        props,
    );
    // the model of the guard
    let mut m_started = false;
    let mut m_name = format!("manual {sid}");
    let mut m_mdl = "manual::initial".to_string();
    let mut m_x: Option<i64> = None;
    let mut m_tag = 0u32;
    let mut m_done = false;
    let mut expect_records = 0u32;
    let log = w.log.clone();
    let ctxt = rt.ctxt().clone();
    let w2 = w.clone();
    let name = st.name.clone();
    frame.call(|| {
        w2.mark("body_start", sid);
        let mut guard = Some(guard);
        if guard.as_ref().unwrap().is_enabled() != enabled {
            lg(&log).violations.push((
                "C05",
                "is_enabled_disagrees",
                format!("{name}: manual span {sid}: is_enabled() = {} right after creation, the filter said {enabled}", !enabled),
            ));
        }
        for op in ops {
            let Some(g) = guard.take() else { break };
            lg(&log).trace.push(format!("{name}: manual span {sid}: {op:?}"));
            match op {
                GOp::WithMdl => {
                    m_mdl = "manual::changed".into();
                    guard = Some(g.with_mdl(emit::path!("manual::changed")));
                }
                GOp::WithName(n) => {
                    m_name = format!("renamed {n}");
                    guard = Some(g.with_name(format!("renamed {n}")));
                }
                GOp::WithProps(x) => {
                    m_x = Some(*x);
                    let mut p: BTreeMap<String, i64> = BTreeMap::new();
                    p.insert("sid".into(), sid as i64);
                    p.insert("x".into(), *x);
                    guard = Some(g.with_props(p));
                }
                GOp::MapProps(x) => {
                    m_x = Some(*x);
                    let x = *x;
                    guard = Some(g.map_props(move |mut p| {
                        p.insert("x".into(), x);
                        p
                    }));
                }
                GOp::WithCompletion(tag) => {
                    m_tag = *tag;
                    guard = Some(g.with_completion(RecCompletion {
                        log: log.clone(),
                        tag: *tag,
                        ctxt: ctxt.clone(),
                    }));
                    w2.probe("completion_replaced");
                    if !enabled {
                        w2.probe("completion_replaced_on_disabled_guard");
                    }
                }
                GOp::Start => {
                    let mut g = g;
                    g.start();
                    if m_started {
                        w2.probe("start_called_twice");
                    }
                    m_started = true;
                    guard = Some(g);
                }
                GOp::Complete => {
                    let want = enabled && m_started && !m_done;
                    let got = g.complete();
                    if want {
                        expect_records += 1;
                        m_done = true;
                    }
                    if got != want {
                        lg(&log).violations.push((
                            "C05",
                            "complete_return_value",
                            format!("{name}: manual span {sid}: complete() returned {got}, expected {want} (enabled={enabled}, started={m_started})"),
                        ));
                    }
                }
                GOp::CompleteWith(tag) => {
                    let want = enabled && m_started && !m_done;
                    let got = g.complete_with(RecCompletion {
                        log: log.clone(),
                        tag: *tag,
                        ctxt: ctxt.clone(),
                    });
                    if want {
                        expect_records += 1;
                        m_done = true;
                        m_tag = *tag;
                    }
                    if got != want {
                        lg(&log).violations.push((
                            "C05",
                            "complete_return_value",
                            format!("{name}: manual span {sid}: complete_with() returned {got}, expected {want} (enabled={enabled}, started={m_started})"),
                        ));
                    }
                }
                GOp::Drop => {
                    if enabled && m_started && !m_done {
                        expect_records += 1;
                        m_done = true;
                    }
                    drop(g);
                }
                GOp::CompleteReceiverPanics(with) => {
                    let want = enabled && m_started && !m_done;
                    if want {
                        expect_records += 1;
                        m_done = true;
                        if let Some(tag) = with {
                            m_tag = *tag;
                        }
                    }
                    lg(&log).receiver_panics_for = Some(sid);
                    let r = panic::catch_unwind(AssertUnwindSafe(|| match with {
                        Some(tag) => g.complete_with(RecCompletion {
                            log: log.clone(),
                            tag: *tag,
                            ctxt: ctxt.clone(),
                        }),
                        None => g.complete(),
                    }));
                    lg(&log).receiver_panics_for = None;
                    match r {
                        Ok(got) => {
                            if want || got {
                                lg(&log).violations.push((
                                    "C05",
                                    "complete_return_value",
                                    format!("{name}: manual span {sid}: an explicit completion returned {got} without its receiver having seen the span (enabled={enabled}, started={m_started}, already completed={})", !want && m_done),
                                ));
                            }
                        }
                        Err(_) => {
                            let msg = crate::core::take_last_panic().unwrap_or_default();
                            if !want || !msg.contains("<injected:") {
                                lg(&log).violations.push(("C05", "unexpected_panic", format!("{name}: manual span {sid}: completion panicked: {msg}")));
                            }
                        }
                    }
                }
            }
            if let Some(g) = guard.as_ref() {
                if g.is_enabled() != enabled {
                    lg(&log).violations.push((
                        "C05",
                        "is_enabled_disagrees",
                        format!("{name}: manual span {sid}: is_enabled() = {} after {op:?}, the filter said {enabled}", g.is_enabled()),
                    ));
                }
            }
        }
        if let Some(g) = guard.take() {
            // falls out of scope
            if enabled && m_started && !m_done {
                expect_records += 1;
            }
            drop(g);
        }
        w2.mark("body_end", sid);
    });
    let mut l = lg(&w.log);
    let info = &mut l.spans[info_ix];
    info.started = m_started;
    info.expect_records = expect_records;
    info.expect_name = Some(m_name);
    info.expect_mdl = Some(m_mdl);
    info.expect_completion = Some(m_tag);
    info.expect_xprop = Some(m_x);
}

// ---------------------------------------------------------------------------------------------
// Interpreter

fn model_enabled(st: &Strand, w: &World, sampled: bool, filter_ok: bool) -> bool {
    if TP {
        // traceparent runtime: the sampler decides roots, children inherit
        let _ = w;
        if st.unsampled > 0 {
            false
        } else if st.in_trace() {
            true
        } else {
            sampled || w.no_sampler
        }
    } else {
        filter_ok
    }
}

fn run_span_sync(w: &Arc<World>, st: &mut Strand, n: &S) {
    let S::Span { sid, form, exit, sampled, ops, body } = n else { unreachable!() };
    let (sid, form, exit) = (*sid, *form, *exit);
    let filter_ok = *sampled;
    let enabled = model_enabled(st, w, *sampled, filter_ok);
    NEXT_SAMPLE.with(|c| c.set(*sampled));
    // a `setup:` hook that puts a request's incoming ids into the ambient context (plain runtime): the hook runs before
    // the span is created, so the span continues that trace - for the model an incoming frame around the span
    let setup_ids: Option<Incoming> = if !TP && form == Form::SetupFn && sid % 2 == 0 && !st.in_trace() {
        Some(Incoming::Ids {
            trace: 0xabc5_0000_0000_0000_0000_0000_0000_0000u128 + sid as u128,
            span: 0xdef5_0000_0000_0000u64 + sid as u64,
            repr: 0,
            part: 0,
        })
    } else {
        None
    };
    if let Some(inc) = &setup_ids {
        push_incoming_model(st, inc);
        w.probe("setup_hook_places_incoming_ids");
    }
    let ix = new_span_info(w, st, sid, form, exit, enabled, *sampled);
    w.mark("begin", sid);
    let saved = st.clone();
    let r = panic::catch_unwind(AssertUnwindSafe(|| match form {
        Form::SetupFn if setup_ids.is_some() => {
            let Some(Incoming::Ids { trace, span, .. }) = &setup_ids else { unreachable!() };
            span_setup_ids_fn(w, st, sid, *trace, *span, enabled, body, exit)
        }
        Form::SyncFn | Form::AsyncFn => span_sync_fn(w, st, sid, enabled, body, exit),
        Form::NewSpanSync | Form::NewSpanAsync => {
            let (mut guard, frame) = emit::new_span!(rt: &w.rt, "span {sid}", sid);
            let st_inner: &mut Strand = &mut *st;
            frame.call(move || {
                guard.start();
                body_sync(w, st_inner, sid, enabled, body, exit);
            });
        }
        Form::ResultFn => {
            let r = span_result_fn(w, st, sid, enabled, body, exit);
            let lvl = if r.is_ok() { "info" } else { "warn" };
            lg(&w.log).spans[ix].expect_lvl = Some(Some(lvl));
        }
        Form::PanicLvlFn => span_panic_lvl_fn(w, st, sid, enabled, body, exit),
        Form::WhenFn => {
            // the runtime filter would say the opposite: the call-site filter must win
            NEXT_SAMPLE.with(|c| c.set(!enabled));
            span_when_fn(w, st, sid, enabled, body, exit, enabled)
        }
        Form::WarnFn => {
            lg(&w.log).spans[ix].expect_lvl = Some(Some("warn"));
            span_warn_fn(w, st, sid, enabled, body, exit)
        }
        Form::LeveledPanicLvlFn => {
            lg(&w.log).spans[ix].expect_lvl = Some(Some("info"));
            span_info_panic_lvl_fn(w, st, sid, enabled, body, exit)
        }
        Form::SetupFn => {
            lg(&w.log).spans[ix].needs_own_ids = true;
            span_setup_fn(w, st, sid, enabled, body, exit)
        }
        Form::ExplicitIdFn => {
            // an id the application brings along (from a request header it parsed itself, say): it is the span's id
            let idv: u64 = 0xe000_0000_0000_0000 | sid as u64;
            lg(&w.log).spans[ix].explicit_span_id = Some(format!("{idv:016x}"));
            w.probe("span_with_explicit_id");
            match sid % 3 {
                0 => span_explicit_typed_fn(w, st, sid, emit::SpanId::from_u64(idv).unwrap(), enabled, body, exit),
                1 => span_explicit_text_fn(w, st, sid, &format!("{idv:016x}"), enabled, body, exit),
                _ => span_explicit_int_fn(w, st, sid, idv, enabled, body, exit),
            }
        }
        Form::NewInfoSpanSync => {
            lg(&w.log).spans[ix].expect_lvl = Some(Some("info"));
            let (mut guard, frame) = emit::new_info_span!(rt: &w.rt, "span {sid}", sid);
            let st_inner: &mut Strand = &mut *st;
            frame.call(move || {
                guard.start();
                body_sync(w, st_inner, sid, enabled, body, exit);
            });
        }
        Form::ResultPanicLvlFn => {
            let r = span_result_panic_lvl_fn(w, st, sid, enabled, body, exit);
            let lvl = if r.is_ok() { "info" } else { "warn" };
            lg(&w.log).spans[ix].expect_lvl = Some(Some(lvl));
        }
        Form::InfoResultFn => {
            let r = span_info_result_fn(w, st, sid, enabled, body, exit);
            // ok_lvl on success; an Err keeps the macro's own level
            let lvl = if r.is_ok() { "debug" } else { "info" };
            lg(&w.log).spans[ix].expect_lvl = Some(Some(lvl));
        }
        Form::GuardFn => {
            let early = ops.first() == Some(&GOp::Complete);
            let (is_enabled, completed) = span_guard_fn(w, st, sid, enabled, body, exit, early);
            if is_enabled != enabled {
                lg(&w.log).violations.push((
                    "C05",
                    "is_enabled_disagrees",
                    format!("{}: span {sid} (guard parameter): is_enabled() = {is_enabled}, model says {enabled}", st.name),
                ));
            }
            if let Some(c) = completed {
                if c != enabled {
                    lg(&w.log).violations.push((
                        "C05",
                        "complete_return_value",
                        format!("{}: span {sid} (guard parameter): complete() returned {c}, model says {enabled}", st.name),
                    ));
                }
            }
        }
        Form::Manual => run_manual(w, st, sid, enabled, ops, ix),
        Form::DefaultCompl => {
            use emit::Level;
            // which setters are used and in which order
            const ORDERS: [[u8; 3]; 6] = [[0, 1, 2], [0, 2, 1], [1, 0, 2], [1, 2, 0], [2, 0, 1], [2, 1, 0]];
            let order = ORDERS[(sid % 6) as usize];
            let skip = (sid / 6) % 4; // 0: all three, 1: no template, 2: no level, 3: no panic level
            let tpl = emit::Template::literal("completed through the default completion");
            let mut c = emit::span::completion::default(w.rt.emitter(), w.rt.ctxt().clone());
            for step in order {
                c = match step {
                    0 if skip != 1 => c.with_tpl(tpl.by_ref()),
                    1 if skip != 2 => c.with_lvl(Level::Debug),
                    2 if skip != 3 => c.with_panic_lvl(Level::Warn),
                    _ => c,
                };
            }
            {
                let mut l = lg(&w.log);
                l.trace.push(format!("{}: span {sid}: default completion, setter order {order:?}, skipped {skip}", st.name));
                // what a normal completion must carry; the unwinding case is settled below
                // a third of these spans carry properties of their own under the very keys the completion adds: what the
                // completion adds comes first (and so counts), the span's own value shows where the completion adds none
                let own = (sid / 24) % 3 == 0;
                l.spans[ix].expect_lvl = Some(if skip != 2 {
                    Some("debug")
                } else if own {
                    Some("info")
                } else {
                    None
                });
                l.spans[ix].expect_err = Some(if own { Some("the span's own err") } else { None });
                l.spans[ix].expect_msg = Some(if skip != 1 { Some("completed through the default completion".to_string()) } else { None });
            }
            let own = (sid / 24) % 3 == 0;
            let mut span_props: Vec<(&str, emit::Value)> = vec![("sid", emit::Value::from(sid))];
            if own {
                span_props.push(("lvl", emit::Value::from("info")));
                span_props.push(("err", emit::Value::from("the span's own err")));
            }
            let (mut guard, frame) = SpanGuard::new(
                w.rt.filter(),
                w.rt.ctxt().clone(),
                w.rt.clock().clone(),
                w.rt.rng().clone(),
                c,
                emit::props! { sid },
                emit::path!("manual::default_completion"),
                format!("span {sid}"),
                &span_props[..],
            );
            let st_inner: &mut Strand = &mut *st;
            frame.call(move || {
                guard.start();
                body_sync(w, st_inner, sid, enabled, body, exit);
            });
        }
    }));
    w.mark("after", sid);
    if r.is_err() {
        let msg = crate::core::take_last_panic().unwrap_or_default();
        *st = saved;
        if let Some(inc) = &setup_ids {
            // the hook's frame was taken down by the unwinding
            pop_incoming_model(st, inc);
        }
        if !msg.contains("<injected:") {
            lg(&w.log).violations.push((if TP { "C18" } else { "C05" }, "unexpected_panic", format!("span {sid} panicked: {msg}")));
        }
        {
            let mut l = lg(&w.log);
            l.spans[ix].unwound = true;
            if l.spans[ix].form == Form::DefaultCompl {
                // panic level if one was set, else the error level
                let skip = (sid / 6) % 4;
                l.spans[ix].expect_lvl = Some(Some(if skip != 3 { "warn" } else { "error" }));
            } else if l.spans[ix].form == Form::PanicLvlFn || l.spans[ix].form == Form::LeveledPanicLvlFn {
                l.spans[ix].expect_lvl = Some(Some("warn"));
            } else if l.spans[ix].form == Form::ResultPanicLvlFn {
                l.spans[ix].expect_lvl = Some(Some("debug"));
            } else {
                l.spans[ix].expect_lvl = Some(Some("error"));
            }
        }
        w.mark("caught", sid);
        // re-raise: the panic belongs to the enclosing program (a Catch node or the task boundary)
        observe(w, st, "after span unwound by panic");
        panic::panic_any(Injected("span_body_rethrow"));
    }
    if let Some(inc) = &setup_ids {
        pop_incoming_model(st, inc);
    }
    observe(w, st, "after span ended");
}

fn run_sync(w: &Arc<World>, st: &mut Strand, nodes: &Arc<Vec<S>>) {
    for n in nodes.iter() {
        match n {
            S::Span { .. } => run_span_sync(w, st, n),
            S::Event(eid) => emit_event(w, st, *eid),
            S::Observe => observe(w, st, "at observe"),
            S::Suspend(_) => observe(w, st, "at (sync) suspend"),
            S::Panic => {
                w.probe("panic_injected");
                panic::panic_any(Injected("program"));
            }
            S::Catch(body) => {
                let saved = st.clone();
                let r = panic::catch_unwind(AssertUnwindSafe(|| run_sync(w, st, body)));
                if r.is_err() {
                    let _ = crate::core::take_last_panic();
                    *st = saved;
                    w.probe("panic_caught_in_program");
                    observe(w, st, "after caught panic");
                }
            }
            S::Thread(body) => {
                let id = {
                    let mut l = lg(&w.log);
                    l.next_strand += 1;
                    l.next_strand
                };
                let mut child = st.clone();
                child.id = id;
                child.name = format!("{}>thread{id}", st.name);
                w.probe("thread_hand_off");
                let frame = Frame::current(w.rt.ctxt().clone());
                let w2 = w.clone();
                let body = body.clone();
                let parent_strand = cur_strand();
                let h = std::thread::spawn(frame.in_fn(move || {
                    CUR_STRAND.with(|c| c.set(id));
                    let mut child = child;
                    observe(&w2, &child, "on arrival in hand-off thread");
                    let r = panic::catch_unwind(AssertUnwindSafe(|| run_sync(&w2, &mut child, &body)));
                    if r.is_err() {
                        let _ = crate::core::take_last_panic();
                    }
                }));
                let _ = h.join();
                CUR_STRAND.with(|c| c.set(parent_strand));
                observe(w, st, "after thread hand-off");
            }
            S::Task(body) => spawn_task(w, st, body, None),
            S::Propagate(sid) => {
                // format the current traceparent as a header and continue the trace in a fresh task
                let header = Traceparent::current().to_string();
                let parsed = Traceparent::try_from_str(&header);
                let now = Traceparent::current();
                match parsed {
                    Ok(p) if p == now => {}
                    other => lg(&w.log).violations.push((
                        "C18",
                        "header_round_trip",
                        format!("{}: header {header} parses back as {other:?}, current is {now:?}", st.name),
                    )),
                }
                w.probe("header_propagated_to_fresh_task");
                let body = Arc::new(vec![S::Span {
                    sid: *sid,
                    form: Form::SyncFn,
                    exit: Exit::Fall,
                    sampled: true,
                    ops: Vec::new(),
                    body: Arc::new(vec![S::Observe]),
                }]);
                spawn_task(w, st, &body, Some(header));
            }
            S::Incoming(inc, body) => run_incoming_sync(w, st, inc, body),
        }
    }
}

fn hex_ids(inc: &Incoming) -> Option<(Option<String>, Option<String>, bool)> {
    match inc {
        Incoming::Ids { trace, span, part, .. } => Some((
            if *part != 2 { Some(format!("{trace:032x}")) } else { None },
            if *part != 1 { Some(format!("{span:016x}")) } else { None },
            true,
        )),
        Incoming::Header { text } => Traceparent::try_from_str(text).ok().and_then(|tp| {
            match (tp.trace_id(), tp.span_id()) {
                (Some(t), Some(s)) => Some((Some(t.to_string()), Some(s.to_string()), flags_sampled(text))),
                _ => None,
            }
        }),
    }
}

/// Partial incoming ids are only used where no trace is active; elsewhere the node pushes both ids.
fn effective_incoming(_w: &World, st: &Strand, inc: &Incoming) -> Incoming {
    match inc {
        Incoming::Ids { trace, span, repr, part } if *part != 0 && st.in_trace() => Incoming::Ids {
            trace: *trace,
            span: *span,
            repr: *repr,
            part: 0,
        },
        // half a header is only pushed where no trace is active (what it does to an enclosing trace's ambient ids is
        // the inner context's business, not modelled here): elsewhere its zero half is filled in
        Incoming::Header { text } if st.in_trace() && is_half(text) => Incoming::Header {
            text: text
                .replace("-0000000000000000-", "-def0000000000fff-")
                .replace("00-00000000000000000000000000000000-", "00-abc00000000000000000000000000fff-"),
        },
        other => other.clone(),
    }
}

fn is_half(text: &str) -> bool {
    text.contains("-0000000000000000-") || text.starts_with("00-00000000000000000000000000000000-")
}

fn ids_frame(w: &Arc<World>, trace: u128, span: u64, repr: u8, part: u8) -> Frame<TheCtxt> {
    let t = emit::TraceId::from_u128(trace).unwrap();
    let s = emit::SpanId::from_u64(span).unwrap();
    let (mut ts, mut ss) = (t.to_string(), s.to_string());
    if repr == 1 && span % 2 == 1 {
        // hex digits are hex digits in either case: upper case for the trace id, alternating for the span id
        ts = ts.to_uppercase();
        ss = ss.chars().enumerate().map(|(i, c)| if i % 2 == 0 { c.to_ascii_uppercase() } else { c }).collect();
        w.probe("incoming_ids_as_upper_case_hex_text");
    }
    let mut props: Vec<(&str, emit::Value)> = Vec::new();
    if part != 2 {
        props.push((
            "trace_id",
            match repr {
                1 => emit::Value::from(ts.as_str()),
                2 => emit::Value::from(trace),
                _ => emit::Value::from_any(&t),
            },
        ));
    }
    if part != 1 {
        props.push((
            "span_id",
            match repr {
                1 => emit::Value::from(ss.as_str()),
                2 => emit::Value::from(span),
                _ => emit::Value::from_any(&s),
            },
        ));
    }
    match repr {
        1 => w.probe("incoming_ids_as_hex_text"),
        2 => w.probe("incoming_ids_as_integers"),
        _ => {}
    }
    match part {
        1 => w.probe("incoming_trace_id_only"),
        2 => w.probe("incoming_span_id_only"),
        _ => {}
    }
    Frame::push(w.rt.ctxt().clone(), &props[..])
}

fn push_incoming_model(st: &mut Strand, inc: &Incoming) -> bool {
    match hex_ids(inc) {
        Some((t, s, sampled)) => {
            if TP && !sampled {
                st.unsampled += 1;
            } else {
                st.incoming.push((t, s));
                st.incoming_at.push(st.enabled.len());
            }
            true
        }
        None => false,
    }
}

/// A pushed header that parses: a whole one is an incoming context; half a one (an all-zero id) is no parent and starts
/// no trace, it is only what `Traceparent::current` reports until something is opened under it.
fn push_header_model(w: &World, st: &mut Strand, inc: &Incoming, tp: &Traceparent) {
    if !push_incoming_model(st, inc) {
        let Incoming::Header { text } = inc else { unreachable!() };
        st.half.push((tp.trace_id().map(|t| t.to_string()), tp.span_id().map(|s| s.to_string()), flags_sampled(text)));
        w.probe("half_header_pushed");
        if tp.trace_id().is_some() {
            w.probe("half_header_trace_id_only");
        } else if tp.span_id().is_some() {
            w.probe("half_header_parent_id_only");
        }
    }
}

fn pop_incoming_model(st: &mut Strand, inc: &Incoming) {
    if let Some((_, _, sampled)) = hex_ids(inc) {
        if TP && !sampled {
            st.unsampled -= 1;
        } else {
            st.incoming.pop();
            st.incoming_at.pop();
        }
    }
}

fn run_incoming_sync(w: &Arc<World>, st: &mut Strand, inc: &Incoming, body: &Arc<Vec<S>>) {
    w.probe("incoming_ids_pushed");
    match inc {
        Incoming::Ids { .. } => {
            let eff = effective_incoming(w, st, inc);
            let inc = &eff;
            let Incoming::Ids { trace, span, repr, part } = inc else { unreachable!() };
            let frame = ids_frame(w, *trace, *span, *repr, *part);
            push_incoming_model(st, inc);
            frame.call(|| {
                observe(w, st, "inside pushed incoming ids");
                run_sync(w, st, body)
            });
            pop_incoming_model(st, inc);
        }
        Incoming::Header { .. } => {
            let eff = effective_incoming(w, st, inc);
            let inc = &eff;
            let Incoming::Header { text } = inc else { unreachable!() };
            match Traceparent::try_from_str(text) {
            Ok(tp) => {
                let mismatch = st.in_trace();
                let frame = push_header(w, tp, text);
                let saved = st.clone();
                if mismatch {
                    // a header pushed inside another trace starts over: nothing of the outer trace is its parent
                    w.probe("header_pushed_inside_another_trace");
                    st.enabled.clear();
                    st.incoming.clear();
                    st.incoming_at.clear();
                    st.unsampled = 0;
                }
                push_header_model(w, st, inc, &tp);
                frame.call(|| {
                    observe(w, st, "inside pushed header");
                    run_sync(w, st, body)
                });
                *st = saved;
            }
            Err(_) => {
                w.probe("invalid_header_ignored");
                run_sync(w, st, body);
            }
            }
        }
    }
    observe(w, st, "after incoming frame");
}

struct Yield(u8);
impl Future for Yield {
    type Output = ();
    fn poll(mut self: Pin<&mut Self>, _: &mut Context<'_>) -> Poll<()> {
        if self.0 == 0 {
            Poll::Ready(())
        } else {
            self.0 -= 1;
            Poll::Pending
        }
    }
}

/// Sets the strand id at the start of every poll, so clock readings and sampler calls are attributable.
struct InStrand<F> {
    id: u32,
    inner: Pin<Box<F>>,
}

impl<F: Future<Output = ()>> Future for InStrand<F> {
    type Output = ();
    fn poll(mut self: Pin<&mut Self>, cx: &mut Context<'_>) -> Poll<()> {
        CUR_STRAND.with(|c| c.set(self.id));
        self.inner.as_mut().poll(cx)
    }
}

fn spawn_task(w: &Arc<World>, st: &Strand, body: &Arc<Vec<S>>, header: Option<String>) {
    let id = {
        let mut l = lg(&w.log);
        l.next_strand += 1;
        l.next_strand
    };
    let w2 = w.clone();
    let body = body.clone();
    let task: Task = match header {
        None => {
            // a sibling task that carries the current frame with it
            let mut child = st.clone();
            child.id = id;
            child.name = format!("{}>task{id}", st.name);
            let frame = Frame::current(w.rt.ctxt().clone());
            w.probe("task_spawned_with_carried_frame");
            Box::pin(InStrand {
                id,
                inner: Box::pin(frame.in_future(async move {
                    let mut child = child;
                    observe(&w2, &child, "on first poll of carried task");
                    run_async(&w2, &mut child, &body).await;
                })),
            })
        }
        Some(header) => {
            // "the next service": nothing ambient, only the header
            let mut child = Strand {
                id,
                name: format!("{}>remote{id}", st.name),
                ..Default::default()
            };
            Box::pin(InStrand {
                id,
                inner: Box::pin(async move {
                    let inc = Incoming::Header { text: header };
                    let tp = Traceparent::try_from_str(match &inc {
                        Incoming::Header { text } => text,
                        _ => unreachable!(),
                    })
                    .expect("formatted header parses");
                    push_header_model(&w2, &mut child, &inc, &tp);
                    push_header(&w2, tp, match &inc { Incoming::Header { text } => text.as_str(), _ => "" })
                        .in_future(async {
                            run_async(&w2, &mut child, &body).await;
                        })
                        .await;
                }),
            })
        }
    };
    let name = format!("{}>task{id}", st.name);
    lg(&w.log).spawned.push((task, name, id));
}

fn run_async<'a>(w: &'a Arc<World>, st: &'a mut Strand, nodes: &'a Arc<Vec<S>>) -> Pin<Box<dyn Future<Output = ()> + Send + 'a>> {
    Box::pin(async move {
        for n in nodes.iter() {
            match n {
                S::Suspend(k) => {
                    w.probe("suspend");
                    Yield(*k).await;
                    observe(w, st, "after resume");
                }
                S::Span { sid, form: form @ (Form::AsyncFn | Form::NewSpanAsync), exit, sampled, body, .. } => {
                    let (sid, exit) = (*sid, *exit);
                    let enabled = model_enabled(st, w, *sampled, *sampled);
                    let ix = new_span_info(w, st, sid, *form, exit, enabled, *sampled);
                    let _ = ix;
                    w.mark("begin", sid);
                    w.probe("async_span");
                    // the sampler decision for this root is consumed on the first poll, which happens right here
                    NEXT_SAMPLE.with(|c| c.set(*sampled));
                    if *form == Form::AsyncFn {
                        span_async_fn(w, st, sid, enabled, body, exit).await;
                    } else {
                        let (mut guard, frame) = emit::new_span!(rt: &w.rt, "span {sid}", sid);
                        frame
                            .in_future(async {
                                guard.start();
                                body_async(w, st, sid, enabled, body, exit).await;
                                drop(guard);
                            })
                            .await;
                    }
                    w.mark("after", sid);
                    observe(w, st, "after async span ended");
                }
                S::Incoming(inc @ Incoming::Ids { .. }, body) => {
                    let eff = effective_incoming(w, st, inc);
                    let inc = &eff;
                    let Incoming::Ids { trace, span, repr, part } = inc else { unreachable!() };
                    let frame = ids_frame(w, *trace, *span, *repr, *part);
                    w.probe("incoming_ids_pushed");
                    push_incoming_model(st, inc);
                    frame.in_future(run_async(w, st, body)).await;
                    pop_incoming_model(st, inc);
                    observe(w, st, "after incoming frame future");
                }
                S::Incoming(inc0 @ Incoming::Header { .. }, body) => {
                    let eff = effective_incoming(w, st, inc0);
                    let inc = &eff;
                    let Incoming::Header { text } = inc else { unreachable!() };
                    match Traceparent::try_from_str(text) {
                    Ok(tp) => {
                        w.probe("incoming_ids_pushed");
                        let mismatch = st.in_trace();
                        let frame = push_header(w, tp, text);
                        let saved = st.clone();
                        if mismatch {
                            w.probe("header_pushed_inside_another_trace");
                            st.enabled.clear();
                            st.incoming.clear();
                            st.incoming_at.clear();
                            st.unsampled = 0;
                        }
                        push_header_model(w, st, inc, &tp);
                        frame.in_future(run_async(w, st, body)).await;
                        *st = saved;
                        observe(w, st, "after header frame future");
                    }
                    Err(_) => {
                        w.probe("invalid_header_ignored");
                        run_async(w, st, body).await;
                    }
                }
                }
                other => {
                    let one = Arc::new(vec![other.clone()]);
                    run_sync(w, st, &one);
                }
            }
        }
    })
}

// ---------------------------------------------------------------------------------------------
// Program generation

pub struct GenCfg {
    pub focus: &'static str,
    pub budget: u32,
}

fn gen_ops(ch: &mut Choices) -> Vec<GOp> {
    let mut ops = Vec::new();
    let n = ch.choose(7);
    for _ in 0..n {
        let op = match ch.weighted(&[4, 1, 2, 2, 2, 2]) {
            0 => GOp::Start,
            1 => GOp::WithMdl,
            2 => GOp::WithName(ch.choose(100)),
            3 => GOp::WithProps(ch.choose(1000) as i64),
            4 => GOp::MapProps(ch.choose(1000) as i64),
            _ => GOp::WithCompletion(1 + ch.choose(5)),
        };
        ops.push(op);
    }
    match ch.choose(9) {
        0 | 1 => ops.push(GOp::Drop),
        2 | 3 => ops.push(GOp::Complete),
        4 | 5 => ops.push(GOp::CompleteWith(10 + ch.choose(5))),
        6 => ops.push(GOp::CompleteReceiverPanics(if ch.chance(1, 2) { Some(10 + ch.choose(5)) } else { None })),
        _ => {}
    }
    ops
}

pub fn gen_nodes(ch: &mut Choices, cfg: &GenCfg, depth: u32, budget: &mut u32, next: &mut u32, is_async: bool) -> Arc<Vec<S>> {
    let mut out = Vec::new();
    let n = 1 + ch.choose(4);
    for _ in 0..n {
        if *budget == 0 {
            break;
        }
        *budget -= 1;
        let leaf = depth >= 5 || *budget == 0;
        // 0 observe 1 event 2 span 3 suspend 4 thread 5 task 6 incoming 7 catch 8 panic 9 propagate
        let c05 = cfg.focus == "C05";
        let w: [u32; 10] = if leaf {
            [3, 4, if c05 { 5 } else { 0 }, if is_async { 2 } else { 0 }, 0, 0, 0, 0, 0, 0]
        } else {
            [
                2,
                3,
                10,
                if is_async { 3 } else { 0 },
                if c05 { 0 } else { 2 },
                if c05 { 0 } else { 2 },
                if c05 { 0 } else { 2 },
                if c05 { 1 } else { 2 },
                if c05 { 1 } else { 0 },
                if TP { 2 } else { 0 },
            ]
        };
        match ch.weighted(&w) {
            0 => out.push(S::Observe),
            1 => {
                *next += 1;
                out.push(S::Event(*next));
            }
            2 => {
                *next += 1;
                let sid = *next;
                let form = if c05 && is_async {
                    *ch.pick(&[Form::Manual, Form::Manual, Form::Manual, Form::SyncFn, Form::ResultFn, Form::PanicLvlFn, Form::LeveledPanicLvlFn, Form::ResultPanicLvlFn, Form::InfoResultFn, Form::WhenFn, Form::WarnFn, Form::NewInfoSpanSync, Form::GuardFn, Form::NewSpanSync, Form::DefaultCompl, Form::DefaultCompl, Form::SetupFn, Form::ExplicitIdFn, Form::AsyncFn, Form::AsyncFn, Form::NewSpanAsync])
                } else if c05 {
                    *ch.pick(&[Form::Manual, Form::Manual, Form::Manual, Form::SyncFn, Form::ResultFn, Form::PanicLvlFn, Form::LeveledPanicLvlFn, Form::ResultPanicLvlFn, Form::InfoResultFn, Form::WhenFn, Form::WarnFn, Form::NewInfoSpanSync, Form::GuardFn, Form::NewSpanSync, Form::DefaultCompl, Form::DefaultCompl, Form::SetupFn, Form::ExplicitIdFn])
                } else if is_async {
                    *ch.pick(&[Form::AsyncFn, Form::AsyncFn, Form::NewSpanAsync, Form::SyncFn, Form::NewSpanSync, Form::ResultFn, if TP { Form::SyncFn } else { Form::WhenFn }, Form::WarnFn, Form::ExplicitIdFn])
                } else {
                    *ch.pick(&[Form::SyncFn, Form::SyncFn, Form::NewSpanSync, Form::ResultFn, Form::GuardFn, if TP { Form::SyncFn } else { Form::WhenFn }, Form::NewInfoSpanSync, Form::ExplicitIdFn, Form::SetupFn])
                };
                let exit = if c05 {
                    *ch.pick(&[Exit::Fall, Exit::Fall, Exit::Err, Exit::Panic])
                } else {
                    // a span body that ends by unwinding (caught further up) is part of every tree workload
                    // (rare: most runs should get through all their tasks)
                    match ch.weighted(&[12, 3, 1]) {
                        0 => Exit::Fall,
                        1 => Exit::Err,
                        _ => Exit::Panic,
                    }
                };
                let exit = match (form, exit) {
                    (Form::Manual, _) => Exit::Fall,
                    (Form::AsyncFn | Form::NewSpanAsync, Exit::Panic) => Exit::Fall,
                    (Form::ResultFn | Form::ResultPanicLvlFn | Form::InfoResultFn, e) => e,
                    (_, Exit::Err) => Exit::Fall,
                    (_, e) => e,
                };
                // "sampled" doubles as the node filter decision on the plain runtime
                let sampled = !ch.chance(1, 4);
                let ops = match form {
                    Form::Manual => gen_ops(ch),
                    Form::GuardFn => {
                        if ch.chance(1, 2) {
                            vec![GOp::Complete]
                        } else {
                            vec![]
                        }
                    }
                    _ => vec![],
                };
                let body_async = is_async && matches!(form, Form::AsyncFn | Form::NewSpanAsync);
                let body = if form == Form::Manual {
                    Arc::new(Vec::new())
                } else {
                    gen_nodes(ch, cfg, depth + 1, budget, next, body_async)
                };
                out.push(S::Span {
                    sid,
                    form,
                    exit,
                    sampled,
                    ops,
                    body,
                });
            }
            3 => out.push(S::Suspend(1 + ch.choose(2) as u8)),
            4 => out.push(S::Thread(gen_nodes(ch, cfg, depth + 1, budget, next, false))),
            5 => out.push(S::Task(gen_nodes(ch, cfg, depth + 1, budget, next, true))),
            6 => {
                *next += 1;
                let inc = if TP {
                    let t = 0xabc0_0000_0000_0000_0000_0000_0000_0000u128 + *next as u128;
                    let s = 0xdef0_0000_0000_0000u64 + *next as u64;
                    let text = match ch.weighted(&[5, 3, 1, 1, 2, 1, 2]) {
                        // half a header: a trace id with an all-zero parent id, or the other way round. It parses, but
                        // it names no parent: what is opened under it is a new trace, sampler and all
                        6 => {
                            let ff = *ch.pick(&["00", "01"]);
                            if ch.chance(1, 2) {
                                format!("00-{t:032x}-{:016x}-{ff}", 0)
                            } else {
                                format!("00-{:032x}-{s:016x}-{ff}", 0)
                            }
                        }
                        0 => format!("00-{t:032x}-{s:016x}-01"),
                        1 => format!("00-{t:032x}-{s:016x}-00"),
                        2 => format!("00-{t:032x}-{s:016x}-zz"),
                        3 => format!("01-{t:032x}-{s:016x}"),
                        // the sampled bit next to other flag bits (03 = sampled + random-trace-id of W3C level 2)
                        4 => format!("00-{t:032x}-{s:016x}-{}", *ch.pick(&["03", "81", "ff", "05"])),
                        // other bits without the sampled one
                        _ => format!("00-{t:032x}-{s:016x}-{}", *ch.pick(&["02", "fe", "80"])),
                    };
                    Incoming::Header { text }
                } else {
                    let repr = ch.weighted(&[3, 3, 2]) as u8;
                    // integers are drawn so that their decimal rendering has as many digits as the hex form of an id
                    // has (16 / 32): a number is a number, however much its digits look like hex text
                    let (trace, span) = if repr == 2 && ch.chance(1, 2) {
                        (12_345_678_901_234_567_890_123_456_789_012u128 + *next as u128, 1_234_567_890_123_456u64 + *next as u64)
                    } else {
                        (0xabc0_0000_0000_0000_0000_0000_0000_0000u128 + *next as u128, 0xdef0_0000_0000_0000u64 + *next as u64)
                    };
                    Incoming::Ids {
                        trace,
                        span,
                        repr,
                        part: ch.weighted(&[4, 1, 1]) as u8,
                    }
                };
                out.push(S::Incoming(inc, gen_nodes(ch, cfg, depth + 1, budget, next, is_async)));
            }
            7 => out.push(S::Catch(gen_nodes(ch, cfg, depth + 1, budget, next, false))),
            8 => out.push(S::Panic),
            _ => {
                *next += 1;
                out.push(S::Propagate(*next));
            }
        }
    }
    Arc::new(out)
}

// ---------------------------------------------------------------------------------------------
// One run

pub fn leaks(w: &World) -> Vec<String> {
    let mut out = Vec::new();
    let ids = ids_now(w);
    if ids != (None, None, None) {
        out.push(format!("ambient span ids {ids:?} are still visible"));
    }
    let mut n = 0;
    w.rt.ctxt().with_current(|p| {
        let _ = p.for_each(|_, _| {
            n += 1;
            std::ops::ControlFlow::Continue(())
        });
    });
    if n > 0 {
        out.push(format!("{n} ambient properties are still visible"));
    }
    let tp = tp_now();
    if tp != (None, None, true) {
        out.push(format!("the current traceparent is still {tp:?}"));
    }
    out
}

pub fn run(ch: &mut Choices, ctx: &RunCtx, focus: &'static str) -> Outcome {
    let mut out = Outcome::default();
    let n_lanes = 1 + ch.choose(3) as usize;
    let n_tasks = if focus == "C05" { 1 + ch.choose(2) as usize } else { 1 + ch.choose(3) as usize };
    let cancel_enabled = ch.chance(1, 5);
    let sticky = ch.choose(4);
    let in_sampled_filter = TP && ch.chance(1, 2);
    // a pipeline without a sampler (what `emit_traceparent::setup()` installs): every new trace is sampled
    let no_sampler = TP && ch.chance(1, 4);
    NO_SAMPLER.with(|c| c.set(no_sampler));
    // clock script: offsets from the base; forward, equal, backward, unavailable
    let clock_mode = if focus == "C05" { ch.weighted(&[3, 2, 2, 2]) } else { 0 };
    let mut script = Vec::new();
    let mut t: i64 = 1_000_000;
    for _ in 0..64 {
        let step = match clock_mode {
            0 => 1000 + ch.choose(1000) as i64,
            1 => *ch.pick(&[0i64, 0, 1, 500]),
            2 => *ch.pick(&[1000i64, -700, -5000, 20, 0]),
            _ => *ch.pick(&[1000i64, i64::MIN, 30, i64::MIN, -10]),
        };
        if step == i64::MIN {
            script.push(i64::MIN);
        } else {
            t = (t + step).max(1);
            script.push(t);
        }
    }
    let cfg = GenCfg {
        focus,
        budget: if ctx.thorough { 36 } else { 22 },
    };
    let mut next = 0u32;
    let mut programs = Vec::new();
    for _ in 0..n_tasks {
        let mut budget = cfg.budget;
        programs.push(gen_nodes(ch, &cfg, 0, &mut budget, &mut next, true));
    }

    let log: Shared = Arc::new(Mutex::new(Log::default()));
    let filter: TheFilter = make_filter(&log, in_sampled_filter, no_sampler);
    let no_sampler_flag = Arc::new(std::sync::atomic::AtomicBool::new(no_sampler));
    let _ = &no_sampler_flag;
    let w = Arc::new(World {
        rt: emit::runtime::Runtime::build(
            Recorder { log: log.clone() },
            filter,
            mk_ctxt(),
            ScriptClock {
                log: log.clone(),
                script: Arc::new(script.clone()),
            },
            CounterRng { log: log.clone() },
        ),
        log: log.clone(),
        in_sampled_filter,
        no_sampler,
    });
    w.log(format!(
        "config: runtime={} ctxt={CTXT_LABEL} lanes={n_lanes} tasks={n_tasks} cancel={cancel_enabled} sticky={sticky} clock_mode={clock_mode} in_sampled_trace_filter={in_sampled_filter} no_sampler={no_sampler}",
        if TP { "traceparent" } else { "plain" }
    ));
    if ctx.want_trace {
        for (i, p) in programs.iter().enumerate() {
            w.log(format!("program of task{i}: {p:?}"));
        }
    }

    let post: lanes::PostCheck = {
        let w = w.clone();
        Arc::new(move || leaks(&w))
    };
    let lanes = Lanes::new(n_lanes, post);
    let mut tasks: Vec<(Task, String, Option<usize>, u32)> = Vec::new();
    for (i, p) in programs.into_iter().enumerate() {
        let w2 = w.clone();
        let id = {
            let mut l = lg(&log);
            l.next_strand += 1;
            l.next_strand
        };
        let strand = Strand {
            id,
            name: format!("task{i}"),
            ..Default::default()
        };
        tasks.push((
            Box::pin(InStrand {
                id,
                inner: Box::pin(async move {
                    let mut strand = strand;
                    run_async(&w2, &mut strand, &p).await;
                    observe(&w2, &strand, "at end of task");
                }),
            }),
            format!("task{i}"),
            None,
            id,
        ));
    }

    let mut steps = 0u64;
    let mut last_pick = 0usize;
    let mut migrations = 0u64;
    let mut pendings = 0u64;
    while !tasks.is_empty() && steps < 2000 {
        steps += 1;
        let pick = if sticky > 0 && last_pick < tasks.len() && ch.choose(4) < sticky {
            last_pick
        } else {
            ch.choose(tasks.len() as u32) as usize
        };
        last_pick = pick;
        let lane = ch.choose(lanes.len() as u32) as usize;
        let (task, name, last_lane, strand_id) = tasks.remove(pick);
        let cancel = cancel_enabled && last_lane.is_some() && ch.chance(1, 10);
        if let Some(l) = last_lane {
            if l != lane {
                migrations += 1;
            }
        }
        let (res, lk) = if cancel {
            w.log(format!("{name} is cancelled on lane {lane}"));
            w.probe("task_cancelled");
            lg(&log).cancelled_strands.insert(strand_id);
            lanes.drop_on(lane, task)
        } else {
            lanes.poll_on(lane, task)
        };
        for l in lk {
            let prop = if TP { "C18" } else if focus == "C05" { "C05" } else { "C04" };
            lg(&log).violations.push((
                prop,
                "leak_after_poll",
                format!("after {name} {} on lane {lane}: {l}", if cancel { "was cancelled" } else { "was polled" }),
            ));
        }
        match res {
            lanes::Outcome::Ready => w.log(format!("{name} completed on lane {lane}")),
            lanes::Outcome::Pending(t) => {
                pendings += 1;
                tasks.insert(pick.min(tasks.len()), (t, name, Some(lane), strand_id));
            }
            lanes::Outcome::Panicked(msg) => {
                if msg.contains("<injected:") {
                    w.probe("panic_unwound_task");
                    lg(&log).cancelled_strands.insert(strand_id);
                } else {
                    let prop = if TP { "C18" } else if focus == "C05" { "C05" } else { "C04" };
                    lg(&log).violations.push((prop, "unexpected_panic", format!("{name} panicked: {msg}")));
                }
            }
            lanes::Outcome::Dropped => {}
        }
        let spawned: Vec<(Task, String, u32)> = std::mem::take(&mut lg(&log).spawned);
        for (t, n, id) in spawned {
            tasks.push((t, n, None, id));
        }
    }
    drop(tasks);
    drop(lanes);

    posthoc(&w, focus);

    let mut l = lg(&log);
    for (p, r, d) in l.violations.drain(..) {
        out.violate(p, r, d);
    }
    out.probes = std::mem::take(&mut l.probes);
    if migrations > 0 {
        out.probes.insert("task_migrated_between_lanes", migrations);
    }
    if pendings > 0 {
        out.probes.insert("poll_returned_pending", pendings);
    }
    out.steps = steps;
    out.trace_hash = history_hash(l.trace.iter());
    out.nontrivial = l.spans.len() >= 2 || migrations > 0 || pendings > 0;
    if ctx.want_trace {
        out.trace = std::mem::take(&mut l.trace);
    }
    out
}

// ---------------------------------------------------------------------------------------------
// History checks

fn posthoc(w: &World, focus: &'static str) {
    let mut l = lg(&w.log);
    let l = &mut *l;
    let mut v: Vec<(&'static str, &'static str, String)> = Vec::new();

    // span records by sid
    let mut by_sid: BTreeMap<u32, Vec<&Rec>> = BTreeMap::new();
    for r in l.recs.iter().filter(|r| r.is_span) {
        if let Some(sid) = r.sid {
            by_sid.entry(sid).or_default().push(r);
        }
    }
    let dead_strand = |s: u32| l.cancelled_strands.contains(&s);

    // ---- C05: exactly one completion per enabled, started span; none otherwise
    let c05 = if TP { "C18" } else { "C05" };
    for s in &l.spans {
        let got = by_sid.get(&s.sid).map(|r| r.len()).unwrap_or(0) as u32;
        if dead_strand(s.strand) && s.form != Form::Manual {
            // cancelled / killed strands: the span may or may not have begun; at most one completion
            if got > 1 {
                v.push((c05, "completed_twice", format!("span {} completed {got} times", s.sid)));
            }
            continue;
        }
        if got != s.expect_records {
            let rule = if got > s.expect_records {
                if s.expect_records == 0 {
                    if TP { "unsampled_span_emitted" } else { "disabled_or_unstarted_span_completed" }
                } else {
                    "completed_twice"
                }
            } else {
                "completion_missing"
            };
            v.push((
                c05,
                rule,
                format!(
                    "span {} ({:?}, exit {:?}, enabled={}, started={}) produced {got} completions, expected {}",
                    s.sid, s.form, s.exit, s.enabled, s.started, s.expect_records
                ),
            ));
            continue;
        }
        let Some(rec) = by_sid.get(&s.sid).and_then(|r| r.first()) else { continue };
        // extent: a range from the reading taken at start to the reading taken at completion
        if !TP {
            let begin = l.items.iter().position(|i| matches!(i, Item::Mark { what: "begin", sid, .. } if *sid == s.sid));
            let body_start = l.items.iter().position(|i| matches!(i, Item::Mark { what: "body_start", sid, .. } if *sid == s.sid));
            let body_end = l.items.iter().position(|i| matches!(i, Item::Mark { what: "body_end" | "panic", sid, .. } if *sid == s.sid));
            let after = l.items.iter().position(|i| matches!(i, Item::Mark { what: "after", sid, .. } if *sid == s.sid));
            if let (Some(b), Some(bs), Some(be), Some(af)) = (begin, body_start, body_end, after) {
                let reads = |from: usize, to: usize| -> Vec<Option<u64>> {
                    l.items[from..to]
                        .iter()
                        .filter_map(|i| match i {
                            Item::Read { strand, value } if *strand == s.strand => Some(*value),
                            _ => None,
                        })
                        .collect()
                };
                let start_reads = if s.form == Form::Manual { reads(bs, be) } else { reads(b, bs) };
                let end_reads = if s.form == Form::Manual { reads(bs, af) } else { reads(be, af) };
                let start = start_reads.first().copied().flatten();
                // manual guards: the completion reading is the last one taken inside the span's scope
                let end = if s.form == Form::Manual { end_reads.last().copied().flatten() } else { end_reads.first().copied().flatten() };
                let start_known = !start_reads.is_empty();
                let end_known = !end_reads.is_empty() && (s.form != Form::Manual || end_reads.len() >= 2);
                if start_known && end_known {
                    match (start, end) {
                        (Some(a), Some(b2)) => {
                            if rec.extent != Some((a, Some(b2))) {
                                v.push((
                                    "C05",
                                    "extent",
                                    format!(
                                        "span {} has extent {:?}; the clock read {a} at start and {b2} at completion",
                                        s.sid, rec.extent
                                    ),
                                ));
                            }
                        }
                        _ => {
                            *l.probes.entry("clock_unavailable_at_start_or_completion").or_insert(0) += 1;
                        }
                    }
                    if let (Some(a), Some(b2)) = (start, end) {
                        if b2 < a {
                            *l.probes.entry("clock_went_backwards_inside_span").or_insert(0) += 1;
                        }
                    }
                }
            }
        }
        if let Some(n) = &s.expect_name {
            if rec.name.as_ref() != Some(n) {
                v.push(("C05", "span_name", format!("span {} completed as {:?}, last set name is {n:?}", s.sid, rec.name)));
            }
        }
        if let Some(m) = &s.expect_mdl {
            if &rec.mdl != m {
                v.push(("C05", "span_mdl", format!("span {} completed in module {:?}, last set is {m:?}", s.sid, rec.mdl)));
            }
        }
        if let Some(c) = s.expect_completion {
            if rec.via_completion != Some(c) {
                v.push(("C05", "wrong_completion", format!("span {} was received by completion {:?}, expected #{c}", s.sid, rec.via_completion)));
            }
        }
        if let Some(x) = s.expect_xprop {
            if rec.xprop != x {
                v.push(("C05", "span_props", format!("span {} completed with x={:?}, last set is {x:?}", s.sid, rec.xprop)));
            }
        }
        if s.form == Form::DefaultCompl {
            if let Some(None) = s.expect_lvl {
                if rec.lvl.is_some() {
                    v.push(("C05", "completion_level", format!("span {} (exit {:?}) completed with lvl {:?} although no level was configured", s.sid, s.exit, rec.lvl)));
                }
            }
            if let Some(Some(msg)) = &s.expect_msg {
                if rec.msg != *msg {
                    v.push(("C05", "completion_template", format!("span {} completed with message {:?}, the completion's template renders {msg:?}", s.sid, rec.msg)));
                }
            }
            if s.unwound != (rec.err.as_deref() == Some("panicked")) {
                v.push(("C05", "panic_error", format!("span {} (exit {:?}) completed with err {:?}", s.sid, s.exit, rec.err)));
            }
            if let (false, Some(want)) = (s.unwound, s.expect_err) {
                if rec.err.as_deref() != want {
                    v.push(("C05", "completion_err", format!("span {} (exit {:?}) completed with err {:?}, expected {want:?}", s.sid, s.exit, rec.err)));
                }
            }
        }
        if let Some(Some(lvl)) = s.expect_lvl {
            if rec.lvl.as_deref() != Some(lvl) {
                v.push(("C05", "completion_level", format!("span {} (exit {:?}) completed with lvl {:?}, expected {lvl}", s.sid, s.exit, rec.lvl)));
            }
            if s.unwound != (rec.err.as_deref() == Some("panicked")) && (s.exit != Exit::Err || s.unwound) {
                v.push(("C05", "panic_error", format!("span {} (exit {:?}) completed with err {:?}", s.sid, s.exit, rec.err)));
            }
        }
        if !rec.is_span {
            v.push(("C05", "span_kind", format!("span {} completed as a non-span event", s.sid)));
        }
        if s.needs_own_ids && (rec.span_id.is_none() || rec.trace_id.is_none()) {
            v.push((
                "C05",
                "completion_without_ids",
                format!("span {} ({:?}, exit {:?}) completed without its ids (trace {:?}, span {:?}): its frame was no longer the active one when it completed", s.sid, s.form, s.exit, rec.trace_id, rec.span_id),
            ));
        }
    }

    // ---- C04: one consistent trace tree
    let c04 = if TP { "C18" } else { "C04" };
    let ids_of = |sid: u32| -> Option<(Option<String>, Option<String>)> {
        by_sid.get(&sid).and_then(|r| r.first()).map(|r| (r.trace_id.clone(), r.span_id.clone()))
    };
    let mut seen_span_ids: BTreeMap<String, u32> = BTreeMap::new();
    for s in &l.spans {
        if !s.enabled || s.expect_records == 0 || dead_strand(s.strand) {
            continue;
        }
        let Some(rec) = by_sid.get(&s.sid).and_then(|r| r.first()) else { continue };
        // (a span id given explicitly among a span's own properties: which of the two ids - the given one or the generated
        // one - the span reports is not something any of the statements speaks of; on this tree it is the generated one,
        // everywhere. What is judged is that the span, whichever id it reports, is consistent with everything around it.)
        let _ = &s.explicit_span_id;
        match &rec.span_id {
            None => v.push((c04, "span_id_missing", format!("span {} completed inside its frame without a span id", s.sid))),
            Some(id) => {
                if id.chars().all(|c| c == '0') {
                    v.push((c04, "span_id_zero", format!("span {} has the all-zero id", s.sid)));
                }
                if let Some(other) = seen_span_ids.insert(id.clone(), s.sid) {
                    v.push((c04, "span_id_repeated", format!("spans {other} and {} share the id {id}", s.sid)));
                }
            }
        }
        // parent and trace
        let (want_parent, want_trace): (Option<Option<String>>, Option<Option<String>>) = match (&s.parent, &s.incoming) {
            (Some(p), _) => match ids_of(*p) {
                Some((t, id)) => (Some(id), Some(t)),
                None => (None, None),
            },
            // a missing incoming trace id means a fresh one is generated (checked below: present)
            (None, Some((t, sp))) => (Some(sp.clone()), t.as_ref().map(|t| Some(t.clone()))),
            (None, None) => (Some(None), None),
        };
        if let (Some(wp), false) = (want_parent, s.under_half) {
            if rec.span_parent != wp {
                v.push((
                    c04,
                    "span_parent",
                    format!(
                        "span {} has parent id {:?}; it is directly nested in {} whose id is {wp:?}",
                        s.sid,
                        rec.span_parent,
                        match (&s.parent, &s.incoming) {
                            (Some(p), _) => format!("span {p}"),
                            (None, Some(_)) => "the incoming context".to_string(),
                            _ => "nothing (a root)".to_string(),
                        }
                    ),
                ));
            }
        }
        if let Some(wt) = want_trace {
            if rec.trace_id != wt {
                v.push((c04, "trace_id", format!("span {} has trace id {:?}, its enclosing trace is {wt:?}", s.sid, rec.trace_id)));
            }
        }
        if rec.trace_id.is_none() {
            v.push((c04, "trace_id_missing", format!("span {} has no trace id", s.sid)));
        }
    }
    // events carry the ids of the innermost enclosing enabled span
    for (eid, strand, es, ei, unsampled) in &l.events {
        let recs: Vec<&Rec> = l.recs.iter().filter(|r| !r.is_span && r.eid == Some(*eid)).collect();
        if l.events_under_half.contains(eid) {
            // directly under a pushed half header: emitted like anything outside a trace, whatever the header's flags
            // say (an invalid traceparent is no trace); which of the header's ids it carries is not judged
            if recs.len() != 1 && !dead_strand(*strand) {
                v.push((c04, "event_count", format!("event {eid} (under a pushed half header) was recorded {} times", recs.len())));
            }
            continue;
        }
        if TP && w.in_sampled_filter && *unsampled {
            if !recs.is_empty() {
                v.push(("C18", "event_in_unsampled_trace_emitted", format!("event {eid} was emitted inside an unsampled trace although the sampled-trace filter is installed")));
            }
            continue;
        }
        if recs.len() != 1 {
            if !dead_strand(*strand) {
                v.push((c04, "event_count", format!("event {eid} was recorded {} times", recs.len())));
            }
            continue;
        }
        let rec = recs[0];
        let want: Option<(Option<String>, Option<String>)> = match (es, ei) {
            (Some(sid), _) => ids_of(*sid),
            (None, Some((t, s))) => Some((t.clone(), s.clone())),
            (None, None) => Some((None, None)),
        };
        if TP && *unsampled {
            if rec.trace_id.is_some() || rec.span_id.is_some() {
                v.push(("C18", "unsampled_ids_visible", format!("event {eid} inside an unsampled trace carries ids {:?}/{:?}", rec.trace_id, rec.span_id)));
            }
            continue;
        }
        if let Some((wt, ws)) = want {
            if rec.trace_id != wt || rec.span_id != ws {
                v.push((
                    c04,
                    "event_ids",
                    format!(
                        "event {eid} carries trace {:?} span {:?}; the innermost enclosing enabled span / incoming context has trace {wt:?} span {ws:?}",
                        rec.trace_id, rec.span_id
                    ),
                ));
            }
        }
    }
    // observations
    for o in &l.obs {
        if dead_strand(o.strand) {
            continue;
        }
        let want: Option<(Option<String>, Option<String>)> = match (&o.expect_span, &o.expect_incoming) {
            (Some(sid), _) => ids_of(*sid),
            (None, Some((t, s))) => Some((t.clone(), s.clone())),
            (None, None) => Some((None, None)),
        };
        if let Some(hdr) = &o.under_half {
            // directly under a pushed half header: it is what was pushed, so it is what is current, flag and all
            // (which of its ids show as ambient ids is the inner context's business and is not judged)
            if TP && o.tp != *hdr {
                v.push((
                    "C18",
                    "current_traceparent",
                    format!("strand {} {}: Traceparent::current is {:?}; the innermost thing in scope is a pushed header carrying {hdr:?}", o.strand, o.whence, o.tp),
                ));
            }
            continue;
        }
        if TP && o.expect_unsampled {
            if o.tp.2 {
                v.push(("C18", "traceparent_reports_sampled", format!("strand {} {}: inside an unsampled trace the current traceparent {:?} reports sampled", o.strand, o.whence, o.tp)));
            }
            if o.got.0.is_some() || o.got.2.is_some() {
                v.push(("C18", "unsampled_ids_visible", format!("strand {} {}: ambient ids {:?} inside an unsampled trace", o.strand, o.whence, o.got)));
            }
            continue;
        }
        if let Some((wt, ws)) = want {
            if o.got.0 != wt || o.got.2 != ws {
                v.push((
                    c04,
                    "ambient_ids",
                    format!(
                        "strand {} {}: SpanCtxt::current is trace {:?} span {:?}; innermost enabled span / incoming context has trace {wt:?} span {ws:?}",
                        o.strand, o.whence, o.got.0, o.got.2
                    ),
                ));
            }
            if TP {
                let want_tp = (wt.clone(), ws.clone(), true);
                if o.tp != want_tp {
                    v.push((
                        "C18",
                        "current_traceparent",
                        format!("strand {} {}: Traceparent::current is {:?}, expected {want_tp:?}", o.strand, o.whence, o.tp),
                    ));
                }
            }
        }
    }

    // ---- C18: the sampler runs exactly once per new trace, at its root
    if TP {
        for s in &l.spans {
            if dead_strand(s.strand) {
                continue;
            }
            let begin = l.items.iter().position(|i| matches!(i, Item::Mark { what: "begin", sid, .. } if *sid == s.sid));
            let body_start = l.items.iter().position(|i| matches!(i, Item::Mark { what: "body_start", sid, .. } if *sid == s.sid));
            if let (Some(b), Some(bs)) = (begin, body_start) {
                let calls = l.items[b..bs]
                    .iter()
                    .filter(|i| matches!(i, Item::Sampler { strand, .. } if *strand == s.strand))
                    .count();
                let want = if s.is_root && !w.no_sampler { 1 } else { 0 };
                if calls != want {
                    v.push((
                        "C18",
                        "sampler_calls",
                        format!(
                            "span {} ({}) consulted the sampler {calls} times, expected {want}",
                            s.sid,
                            if s.is_root { "root of a new trace" } else { "child span or continued trace" }
                        ),
                    ));
                }
            }
        }
    }
    let _ = focus;
    l.violations.extend(v);
}
