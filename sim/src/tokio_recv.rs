//! The tokio-hosted receiver (`emit_batcher::tokio::spawn`) on a *real* tokio runtime, with the async and blocking entry
//! points called from real callers. Real tokio threads cannot be scheduled by the simulator, so - like the
//! calling-context probes - these are probes whose verdict does not depend on the schedule: every rule below is about
//! content, order and "finished before flush said so", with waits that are either finite work or bounded by half a minute
//! of wall-clock time. The seed decides the workload, the processor's outcome script and which entry point each
//! operation uses; the interleaving with the receiver's thread is the operating system's and is not part of the history
//! hash. What this adds over the simulated engines: `tokio::spawn` itself (runtime construction, the sleep closure), the
//! oneshot wake-ups of `tokio::{send, flush}` across real threads, and termination of the worker thread on sender drop.

use std::{
    collections::BTreeSet,
    future::Future,
    panic::{self, AssertUnwindSafe},
    pin::Pin,
    sync::{mpsc, Arc, Mutex},
    time::Duration,
};

use emit_batcher::{BatchError, Receiver, Sender};
use serde_json::{json, Value};

use crate::{
    choices::Choices,
    core::{take_last_panic, Engine, Injected, Outcome, RunCtx},
    rng::Fnv,
};

pub struct TokioReceiver;

const LONG: Duration = Duration::from_secs(30);

#[derive(Default)]
struct Log {
    /// items in the order first attempts delivered them
    delivered: Vec<u32>,
    /// items whose final processing attempt has finished
    done: BTreeSet<u32>,
    /// what the next call must carry if it is a retry
    expect_retry: Option<Vec<u32>>,
    first_attempts: usize,
    retried: bool,
    problems: Vec<(&'static str, &'static str, String)>,
    notes: Vec<String>,
}

#[derive(Clone, Copy, Debug, PartialEq)]
enum Act {
    Ok,
    YieldThenOk(u8),
    Fail,
    SleepThenOk(u8),
    PanicSync,
    PanicAsync,
    RetrySuffix,
}

#[derive(Clone, Copy, Debug, PartialEq)]
enum Op {
    Send,
    AsyncSend,
    BlockingSend,
    BlockingSendFromWorker,
    AsyncFlush,
    BlockingFlush,
    BlockingFlushFromWorker,
    BlockingFlushFromCurrentThreadRt,
}

type BoxFut = Pin<Box<dyn Future<Output = Result<(), BatchError<Vec<u32>>>> + Send>>;

fn io_err() -> std::io::Error {
    std::io::Error::new(std::io::ErrorKind::Other, "scripted failure")
}

fn finish(log: &Arc<Mutex<Log>>, items: &[u32]) {
    let mut l = log.lock().unwrap();
    for i in items {
        l.done.insert(*i);
    }
}

impl Engine for TokioReceiver {
    fn name(&self) -> &'static str {
        "tokio-receiver"
    }

    fn real_vs_stub(&self) -> Value {
        json!({
            "real": ["emit_batcher::tokio::{spawn, send, flush, blocking_send, blocking_flush}", "emit_batcher::Receiver::exec with its real retry wait (700 ms of wall-clock time when a retry is scripted)", "tokio current-thread runtime of the worker, the callers' current-thread and multi-thread runtimes, tokio::sync::oneshot, tokio timers", "real OS threads and the operating system's scheduler"],
            "simulated": ["the batch processor (scripted outcomes)"],
            "not_exercised": ["a chosen interleaving: the schedule is the operating system's; only schedule-independent rules are judged here"]
        })
    }

    fn rule(&self) -> &'static str {
        "probes on real tokio threads: one run = 1-14 items through a channel whose receiver was started with emit_batcher::tokio::spawn, sent through send / tokio::send / blocking_send (from a plain thread or a multi-thread worker) and flushed through tokio::flush / blocking_flush (plain thread, multi-thread worker, current-thread runtime), against a scripted processor (ok, pending, failure, panic in the call or in the future, at most one retry with a suffix remainder); judged: exactly-once in order, retry carries the remainder, flush true only when everything sent before has finished, flush and lossless sends succeed within half a minute, the worker thread ends when the sender is dropped; the schedule is not controlled and not part of the history hash"
    }

    fn shard_over_processes(&self) -> bool {
        true
    }

    fn minimise_budget(&self) -> usize {
        // a broken run waits out real timeouts: a couple of re-executions, not thousands
        2
    }

    fn run(&self, ch: &mut Choices, ctx: &RunCtx) -> Outcome {
        let mut out = Outcome::default();
        let n_items = 1 + ch.choose(14);
        let plain_sends = ch.chance(1, 3);
        // plain sends may truncate a full queue, which this probe does not model: give them room for everything
        let cap = if plain_sends { 100 } else { *ch.pick(&[1usize, 2, 3, 8, 100]) };
        let allow_retry = ch.chance(1, 8);
        let script: Vec<Act> = (0..8)
            .map(|_| match ch.weighted(&[6, 3, 2, 2, 1, 1, if allow_retry { 3 } else { 0 }]) {
                0 => Act::Ok,
                1 => Act::YieldThenOk(1 + ch.choose(3) as u8),
                2 => Act::Fail,
                3 => Act::SleepThenOk(1 + ch.choose(3) as u8),
                4 => Act::PanicSync,
                5 => Act::PanicAsync,
                _ => Act::RetrySuffix,
            })
            .collect();
        let mut ops: Vec<Op> = Vec::new();
        for _ in 0..n_items {
            ops.push(if plain_sends {
                Op::Send
            } else {
                *ch.pick(&[Op::AsyncSend, Op::AsyncSend, Op::BlockingSend, Op::BlockingSendFromWorker])
            });
            if ch.chance(1, 4) {
                ops.push(*ch.pick(&[Op::AsyncFlush, Op::AsyncFlush, Op::BlockingFlush, Op::BlockingFlushFromWorker, Op::BlockingFlushFromCurrentThreadRt]));
            }
        }
        ops.push(*ch.pick(&[Op::AsyncFlush, Op::BlockingFlush, Op::BlockingFlushFromWorker]));

        let log: Arc<Mutex<Log>> = Arc::new(Mutex::new(Log::default()));
        let (sender, receiver): (Sender<Vec<u32>>, Receiver<Vec<u32>>) = emit_batcher::bounded(cap);
        let sender = Arc::new(sender);

        let spawned = {
            let log = log.clone();
            let script = script.clone();
            emit_batcher::tokio::spawn("tokio_receiver_probe", receiver, move |batch: Vec<u32>| -> BoxFut {
                let log = log.clone();
                let act = {
                    let mut l = log.lock().unwrap();
                    match l.expect_retry.take() {
                        Some(want) => {
                            if batch != want {
                                l.problems.push(("C06", "tokio_receiver_retry_content", format!("the retry carried {batch:?}, the processor had returned {want:?}")));
                            }
                            l.notes.push(format!("retry of {} items", batch.len()));
                            // the retried remainder succeeds
                            Act::Ok
                        }
                        None => {
                            l.delivered.extend(batch.iter().copied());
                            let k = l.first_attempts;
                            l.first_attempts += 1;
                            let a = script[k % script.len()];
                            if a == Act::RetrySuffix && (l.retried || batch.is_empty()) {
                                Act::Ok
                            } else {
                                a
                            }
                        }
                    }
                };
                match act {
                    Act::Ok => {
                        finish(&log, &batch);
                        Box::pin(async { Ok(()) })
                    }
                    Act::YieldThenOk(k) => Box::pin(async move {
                        for _ in 0..k {
                            tokio::task::yield_now().await;
                        }
                        finish(&log, &batch);
                        Ok(())
                    }),
                    Act::SleepThenOk(ms) => Box::pin(async move {
                        tokio::time::sleep(Duration::from_millis(ms as u64)).await;
                        finish(&log, &batch);
                        Ok(())
                    }),
                    Act::Fail => {
                        finish(&log, &batch);
                        Box::pin(async { Err(BatchError::no_retry(io_err())) })
                    }
                    Act::PanicSync => {
                        finish(&log, &batch);
                        panic::panic_any(Injected("tokio_receiver_processor"))
                    }
                    Act::PanicAsync => Box::pin(async move {
                        tokio::task::yield_now().await;
                        finish(&log, &batch);
                        panic::panic_any(Injected("tokio_receiver_processor_future"))
                    }),
                    Act::RetrySuffix => {
                        let cut = batch.len() / 2;
                        let rest: Vec<u32> = batch[cut..].to_vec();
                        finish(&log, &batch[..cut]);
                        {
                            let mut l = log.lock().unwrap();
                            l.retried = true;
                            l.expect_retry = Some(rest.clone());
                        }
                        Box::pin(async move { Err(BatchError::retry(io_err(), rest)) })
                    }
                }
            })
        };
        let handle = match spawned {
            Ok(h) => h,
            Err(e) => {
                out.violate("C08", "tokio_receiver_spawn_failed", format!("emit_batcher::tokio::spawn failed: {e}"));
                return out;
            }
        };

        // the callers' runtimes
        let crt = tokio::runtime::Builder::new_current_thread().enable_all().build().unwrap();
        let mrt = tokio::runtime::Builder::new_multi_thread().worker_threads(1).enable_all().build().unwrap();

        let mut sent: Vec<u32> = Vec::new();
        let mut next: u32 = 0;
        let mut trace: Vec<String> = Vec::new();
        let mut problems: Vec<(&'static str, &'static str, String)> = Vec::new();
        for op in &ops {
            let r = panic::catch_unwind(AssertUnwindSafe(|| -> Result<Option<bool>, String> {
                match op {
                    Op::Send => {
                        sender.send(next + 1);
                        Ok(None)
                    }
                    Op::AsyncSend => crt
                        .block_on(emit_batcher::tokio::send(&*sender, next + 1, LONG))
                        .map(|_| None)
                        .map_err(|_| "tokio::send with half a minute to spare and a running receiver returned an error".to_string()),
                    Op::BlockingSend => emit_batcher::blocking_send(&*sender, next + 1, LONG)
                        .map(|_| None)
                        .map_err(|_| "blocking_send with half a minute to spare and a running receiver returned an error".to_string()),
                    Op::BlockingSendFromWorker => {
                        let s = sender.clone();
                        let item = next + 1;
                        mrt.block_on(async move { tokio::spawn(async move { emit_batcher::blocking_send(&*s, item, LONG).is_ok() }).await })
                            .map_err(|e| format!("the task calling blocking_send failed: {e}"))
                            .and_then(|ok| if ok { Ok(None) } else { Err("blocking_send from a multi-thread worker with half a minute to spare returned an error".to_string()) })
                    }
                    Op::AsyncFlush => Ok(Some(crt.block_on(emit_batcher::tokio::flush(&*sender, LONG)))),
                    Op::BlockingFlush => Ok(Some(emit_batcher::blocking_flush(&*sender, LONG))),
                    Op::BlockingFlushFromWorker => {
                        let s = sender.clone();
                        mrt.block_on(async move { tokio::spawn(async move { emit_batcher::blocking_flush(&*s, LONG) }).await })
                            .map(Some)
                            .map_err(|e| format!("the task calling blocking_flush failed: {e}"))
                    }
                    Op::BlockingFlushFromCurrentThreadRt => Ok(Some(crt.block_on(async { emit_batcher::blocking_flush(&*sender, LONG) }))),
                }
            }));
            let is_send = matches!(op, Op::Send | Op::AsyncSend | Op::BlockingSend | Op::BlockingSendFromWorker);
            match r {
                Err(_) => {
                    problems.push(("C08", "tokio_receiver_call_panicked", format!("{op:?} panicked: {}", take_last_panic().unwrap_or_default())));
                    break;
                }
                Ok(Err(why)) => {
                    problems.push((if is_send { "C09" } else { "C08" }, "tokio_receiver_call_failed", format!("{op:?}: {why}")));
                    break;
                }
                Ok(Ok(None)) => {
                    next += 1;
                    sent.push(next);
                    trace.push(format!("{op:?} item {next}"));
                }
                Ok(Ok(Some(flushed))) => {
                    trace.push(format!("{op:?} -> {flushed}"));
                    if !flushed {
                        problems.push(("C08", "tokio_receiver_flush_timed_out", format!("{op:?} with half a minute to spare, a running receiver and finite work returned false")));
                        break;
                    }
                    let l = log.lock().unwrap();
                    let unfinished: Vec<u32> = sent.iter().copied().filter(|i| !l.done.contains(i)).collect();
                    if !unfinished.is_empty() {
                        problems.push(("C07", "tokio_receiver_flush_before_processed", format!("{op:?} returned true while items {unfinished:?}, sent before it was called, had not finished processing")));
                    }
                }
            }
        }

        // dropping the last sender closes the channel: the receiver delivers what is queued and its thread ends
        drop(crt);
        drop(mrt);
        match Arc::try_unwrap(sender) {
            Ok(s) => drop(s),
            Err(_) => problems.push(("C08", "tokio_receiver_harness", "a sender clone outlived its task".into())),
        }
        let (tx, rx) = mpsc::channel();
        std::thread::spawn(move || {
            let r = handle.join();
            let _ = tx.send(r.is_ok());
        });
        match rx.recv_timeout(LONG) {
            Ok(true) => {}
            Ok(false) => problems.push(("C08", "tokio_receiver_thread_panicked", "the worker thread started by tokio::spawn ended with a panic".into())),
            Err(_) => problems.push(("C08", "tokio_receiver_did_not_terminate", "half a minute after the last sender was dropped the worker thread started by tokio::spawn was still running".into())),
        }
        {
            let mut l = log.lock().unwrap();
            problems.append(&mut l.problems);
            if problems.iter().all(|p| p.1 != "tokio_receiver_did_not_terminate" && p.1 != "tokio_receiver_call_panicked") {
                if l.delivered != sent {
                    problems.push(("C06", "tokio_receiver_delivery", format!("accepted {sent:?}, first attempts delivered {:?}", l.delivered)));
                }
                let unfinished: Vec<u32> = sent.iter().copied().filter(|i| !l.done.contains(i)).collect();
                if !unfinished.is_empty() {
                    problems.push(("C08", "tokio_receiver_unfinished_at_exit", format!("the worker ended with items {unfinished:?} not processed to the end")));
                }
            }
            if l.retried {
                out.probe("tokio_receiver_retry_with_real_backoff");
            }
            if l.first_attempts > 1 {
                out.probe("tokio_receiver_several_batches");
            }
            trace.extend(l.notes.drain(..));
        }
        for (p, r, d) in problems {
            // a blocking send that fails is C09's business as well as C08's
            out.violate(p, r, d.clone());
            if p == "C09" {
                out.violate("C08", r, d);
            }
        }
        for a in &script {
            out.probe(match a {
                Act::Ok => "processor_ok",
                Act::YieldThenOk(_) => "processor_pending_then_ok",
                Act::Fail => "processor_failure",
                Act::SleepThenOk(_) => "processor_sleeps_on_the_tokio_timer",
                Act::PanicSync => "processor_panics_in_the_call",
                Act::PanicAsync => "processor_panics_in_the_future",
                Act::RetrySuffix => "processor_asks_for_a_retry",
            });
        }
        for op in &ops {
            out.probe(match op {
                Op::Send => "op_send",
                Op::AsyncSend => "op_tokio_send",
                Op::BlockingSend => "op_blocking_send_plain_thread",
                Op::BlockingSendFromWorker => "op_blocking_send_multi_thread_worker",
                Op::AsyncFlush => "op_tokio_flush",
                Op::BlockingFlush => "op_blocking_flush_plain_thread",
                Op::BlockingFlushFromWorker => "op_blocking_flush_multi_thread_worker",
                Op::BlockingFlushFromCurrentThreadRt => "op_blocking_flush_current_thread_runtime",
            });
        }
        // the history is the plan: the schedule is not ours
        let mut h = Fnv::new();
        h.str(&format!("{cap}/{script:?}/{ops:?}"));
        out.trace_hash = h.finish();
        out.nontrivial = true;
        if ctx.want_trace {
            out.trace.push(format!("config: capacity={cap} script={script:?}"));
            out.trace.extend(trace);
        }
        out
    }
}
