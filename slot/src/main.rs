//! C20: racing initialisers and observers over a fresh `AmbientSlot`, meant to run under
//! `cargo +nightly miri run` so that the scheduler (miri's, seeded) preempts inside
//! `std::sync::OnceLock` and the unsafe pointer cast in `AmbientSlot::get`.
//!
//! args: <workload-seed> ; prints one `SIG ...` line and `OK`, or `VIOLATION <rule> <detail>`.

use std::{
    ops::ControlFlow,
    panic::{self, AssertUnwindSafe},
    sync::{
        atomic::{AtomicBool, AtomicU32, AtomicUsize, Ordering},
        Arc, Mutex,
    },
    thread,
    time::Duration,
};

use emit::{
    runtime::{AmbientRuntime, AmbientSlot},
    Clock, Ctxt, Emitter, Filter, Props, Rng,
};

/// Which slot the race is about: a fresh one, the process-wide shared slot (`Setup::init` / `try_init`) or the
/// process-wide internal slot (`Setup::init_internal` / `try_init_internal`). Every miri execution starts from a
/// fresh interpreter state, so the process-wide slots are empty at the start of each.
#[derive(Clone, Copy)]
enum SlotKind {
    Fresh(&'static AmbientSlot),
    Shared,
    Internal,
}

impl SlotKind {
    fn is_enabled(&self) -> bool {
        match self {
            SlotKind::Fresh(s) => s.is_enabled(),
            SlotKind::Shared => emit::runtime::shared_slot().is_enabled(),
            SlotKind::Internal => emit::runtime::internal_slot().is_enabled(),
        }
    }

    fn get(&self) -> &'static AmbientRuntime<'static> {
        match self {
            SlotKind::Fresh(s) => s.get(),
            SlotKind::Shared => emit::runtime::shared(),
            SlotKind::Internal => emit::runtime::internal(),
        }
    }

    fn name(&self) -> &'static str {
        match self {
            SlotKind::Fresh(_) => "fresh",
            SlotKind::Shared => "shared",
            SlotKind::Internal => "internal",
        }
    }
}

thread_local! {
    /// the slot the calling thread's span function runs against, and what its `setup:` does
    static TL_SLOT: std::cell::Cell<Option<SlotKind>> = const { std::cell::Cell::new(None) };
    static TL_SETUP: std::cell::RefCell<Option<Box<dyn FnOnce()>>> = const { std::cell::RefCell::new(None) };
}

fn tl_rt() -> &'static AmbientRuntime<'static> {
    TL_SLOT.with(|s| s.get()).expect("slot set").get()
}

fn tl_setup() {
    if let Some(f) = TL_SETUP.with(|f| f.borrow_mut().take()) {
        f()
    }
}

/// "Invoke the expression before creating the span": an application (or a test) that initialises the runtime in the
/// `setup:` of its outermost span expects that span to go through the runtime it has just initialised.
#[emit::span(rt: tl_rt(), setup: tl_setup, "span whose setup initialises the slot", eid)]
fn span_with_setup(eid: u32) {}

impl emit::runtime::InternalEmitter for TagEmitter {}
impl emit::runtime::InternalFilter for TagFilter {}
impl emit::runtime::InternalCtxt for TagCtxt {}
impl emit::runtime::InternalClock for TagClock {}
impl emit::runtime::InternalRng for TagRng {}

/// The winner's handle must be a view of the configuration it installed: same runtime as the slot hands out,
/// its own five components, events through it reach its own emitter.
fn check_handle(init: emit::setup::Init<'static, TagEmitter, TagCtxt>, i: u32, kind: SlotKind, shared: &Shared, eid: u32) {
    let mut v: Vec<String> = Vec::new();
    if init.emitter().0 != i {
        v.push(format!("handle_emitter initialiser {i}: Init::emitter() is emitter {}", init.emitter().0));
    }
    if init.ctxt().0 != i {
        v.push(format!("handle_ctxt initialiser {i}: Init::ctxt() is ctxt {}", init.ctxt().0));
    }
    let rt = init.get();
    if !std::ptr::eq(rt, kind.get()) {
        v.push(format!("handle_runtime initialiser {i}: Init::get() is not the runtime the slot hands out"));
    }
    let clock = rt.clock().now().map(|t| t.to_unix().as_secs());
    let rng = rt.rng().gen_u64().map(|r| (r & 0xff) as u32);
    let ctxt = rt.ctxt().with_current(|p| p.pull::<u32, _>("ctxt_tag"));
    if clock != Some(1000 + i as u64) || rng != Some(i) || ctxt != Some(i) {
        v.push(format!(
            "handle_torn initialiser {i} won, but its handle's runtime has clock {clock:?} rng {rng:?} ctxt {ctxt:?}"
        ));
    }
    emit::emit!(rt, "through the handle", eid);
    let got: Vec<u32> = shared.received.lock().unwrap().iter().filter(|g| g.eid == Some(eid)).map(|g| g.emitter).collect();
    if got != vec![i] {
        v.push(format!("handle_event initialiser {i}: an event emitted through Init::get() was received by emitters {got:?}"));
    }
    if !init.blocking_flush(Duration::ZERO) {
        v.push(format!("handle_flush initialiser {i}: Init::blocking_flush returned false"));
    }
    let guard = init.flush_on_drop(Duration::ZERO);
    if !std::ptr::eq(guard.inner().get(), kind.get()) {
        v.push(format!("handle_runtime initialiser {i}: InitGuard::inner().get() is not the runtime the slot hands out"));
    }
    drop(guard);
    shared.violations.lock().unwrap().extend(v);
}

#[derive(Clone, Debug, PartialEq)]
struct Got {
    emitter: u32,
    clock: Option<u64>,
    ctxt: Option<u32>,
    eid: Option<u32>,
    thread: thread::ThreadId,
    /// the completion of `span_with_setup` (the test context keeps no pushed properties, so it is known by its name)
    setup_span: bool,
}

struct Shared {
    received: Mutex<Vec<Got>>,
    filter_calls: [AtomicUsize; 8],
    violations: Mutex<Vec<String>>,
}

struct TagEmitter(u32, Arc<Shared>);
impl Emitter for TagEmitter {
    fn emit<E: emit::event::ToEvent>(&self, evt: E) {
        let evt = evt.to_event();
        let got = Got {
            emitter: self.0,
            clock: evt.extent().map(|e| e.as_point().to_unix().as_secs()),
            ctxt: evt.props().pull::<u32, _>("ctxt_tag"),
            eid: evt.props().pull::<u32, _>("eid"),
            thread: thread::current().id(),
            setup_span: evt.msg().to_string().starts_with("span whose setup"),
        };
        self.1.received.lock().unwrap().push(got);
    }
    fn blocking_flush(&self, _: Duration) -> bool {
        true
    }
}

struct TagFilter(u32, Arc<Shared>);
impl Filter for TagFilter {
    fn matches<E: emit::event::ToEvent>(&self, _: E) -> bool {
        self.1.filter_calls[self.0 as usize].fetch_add(1, Ordering::SeqCst);
        true
    }
}

#[derive(Clone, Copy)]
struct TagCtxt(u32);
struct TagProps(u32);
impl Props for TagProps {
    fn for_each<'kv, F: FnMut(emit::Str<'kv>, emit::Value<'kv>) -> ControlFlow<()>>(&'kv self, mut f: F) -> ControlFlow<()> {
        f(emit::Str::new("ctxt_tag"), emit::Value::from(self.0))
    }
}
/// How often each configuration's context was entered and exited (a context whose `enter` and `exit` are different
/// things: every frame that is entered through the slot must be exited through it).
static CTXT_ENTERS: [AtomicUsize; 8] = [const { AtomicUsize::new(0) }; 8];
static CTXT_EXITS: [AtomicUsize; 8] = [const { AtomicUsize::new(0) }; 8];

impl Ctxt for TagCtxt {
    type Current = TagProps;
    type Frame = ();
    fn open_root<P: Props>(&self, _: P) -> Self::Frame {}
    fn enter(&self, _: &mut Self::Frame) {
        CTXT_ENTERS[self.0 as usize].fetch_add(1, Ordering::SeqCst);
    }
    fn with_current<R, F: FnOnce(&Self::Current) -> R>(&self, with: F) -> R {
        with(&TagProps(self.0))
    }
    fn exit(&self, _: &mut Self::Frame) {
        CTXT_EXITS[self.0 as usize].fetch_add(1, Ordering::SeqCst);
    }
    fn close(&self, _: Self::Frame) {}
}

struct TagClock(u32);
impl Clock for TagClock {
    fn now(&self) -> Option<emit::Timestamp> {
        emit::Timestamp::from_unix(Duration::from_secs(1000 + self.0 as u64))
    }
}

struct TagRng(u32);
impl Rng for TagRng {
    fn fill<A: AsMut<[u8]>>(&self, mut arr: A) -> Option<A> {
        for b in arr.as_mut() {
            *b = self.0 as u8;
        }
        Some(arr)
    }
}

fn splitmix(s: &mut u64) -> u64 {
    *s = s.wrapping_add(0x9E37_79B9_7F4A_7C15);
    let mut z = *s;
    z = (z ^ (z >> 30)).wrapping_mul(0xBF58_476D_1CE4_E5B9);
    z = (z ^ (z >> 27)).wrapping_mul(0x94D0_49BB_1331_11EB);
    z ^ (z >> 31)
}

fn main() {
    let seed: u64 = std::env::args().nth(1).and_then(|s| s.parse().ok()).unwrap_or(1);
    let mut st = seed;
    let n_init = 2 + (splitmix(&mut st) % 3) as u32; // 2..=4
    let n_obs = 1 + (splitmix(&mut st) % 3) as u32; // 1..=3
    let obs_rounds = 3 + (splitmix(&mut st) % 4) as u32;
    let panicking_init = (splitmix(&mut st) % (n_init as u64 + 1)) as u32; // which initialiser uses init_slot (n_init = none)

    // the driver picks workload seeds so that every slot kind occurs
    let slot = match seed % 3 {
        0 => SlotKind::Fresh(Box::leak(Box::new(AmbientSlot::new()))),
        1 => SlotKind::Shared,
        _ => SlotKind::Internal,
    };
    let shared = Arc::new(Shared {
        received: Mutex::new(Vec::new()),
        filter_calls: Default::default(),
        violations: Mutex::new(Vec::new()),
    });
    let gate = Arc::new(AtomicBool::new(false));
    let seen_enabled = Arc::new(AtomicBool::new(false));
    let next_eid = Arc::new(AtomicU32::new(1));
    // silence the expected "already initialized" panic
    panic::set_hook(Box::new(|_| {}));

    let mut handles = Vec::new();
    let outcomes: Arc<Mutex<Vec<(u32, &'static str)>>> = Arc::new(Mutex::new(Vec::new()));
    for i in 1..=n_init {
        let shared = shared.clone();
        let gate = gate.clone();
        let outcomes = outcomes.clone();
        let yields = splitmix(&mut st) % 6;
        let use_panicking = i - 1 == panicking_init;
        // one initialiser in three (never the panicking one) initialises from inside the `setup:` of a span function
        let via_span_setup = !use_panicking && (seed / 6 + i as u64) % 3 == 0;
        handles.push(thread::spawn(move || {
            while !gate.load(Ordering::Acquire) {
                thread::yield_now();
            }
            for _ in 0..yields {
                thread::yield_now();
            }
            if via_span_setup {
                let span_eid = 2_000_000 + i;
                let (shared2, outcomes2) = (shared.clone(), outcomes.clone());
                TL_SLOT.with(|s| s.set(Some(slot)));
                TL_SETUP.with(|f| {
                    *f.borrow_mut() = Some(Box::new(move || {
                        let setup = emit::setup()
                            .emit_to(TagEmitter(i, shared2.clone()))
                            .emit_when(TagFilter(i, shared2.clone()))
                            .with_ctxt(TagCtxt(i))
                            .with_clock(TagClock(i))
                            .with_rng(TagRng(i));
                        let r = match slot {
                            SlotKind::Fresh(s) => setup.try_init_slot(s),
                            SlotKind::Shared => setup.try_init(),
                            SlotKind::Internal => setup.try_init_internal(),
                        };
                        let won = match r {
                            Some(init) => {
                                check_handle(init, i, slot, &shared2, 1_000_000 + i);
                                "won"
                            }
                            None => "lost",
                        };
                        outcomes2.lock().unwrap().push((i, won));
                    }));
                });
                span_with_setup(span_eid);
                // whoever won, the slot was initialised when `setup` returned: the span opened after it went through
                // the winning runtime
                let me = thread::current().id();
                let n = shared.received.lock().unwrap().iter().filter(|g| g.setup_span && g.thread == me).count();
                if n != 1 {
                    shared.violations.lock().unwrap().push(format!(
                        "span_after_setup_not_emitted initialiser {i}: the span whose setup initialised the slot was recorded {n} times"
                    ));
                }
                return;
            }
            let setup = emit::setup()
                .emit_to(TagEmitter(i, shared.clone()))
                .emit_when(TagFilter(i, shared.clone()))
                .with_ctxt(TagCtxt(i))
                .with_clock(TagClock(i))
                .with_rng(TagRng(i));
            let handle_eid = 1_000_000 + i;
            let won = if use_panicking {
                match panic::catch_unwind(AssertUnwindSafe(|| match slot {
                    SlotKind::Fresh(s) => setup.init_slot(s),
                    SlotKind::Shared => setup.init(),
                    SlotKind::Internal => setup.init_internal(),
                })) {
                    Ok(init) => {
                        check_handle(init, i, slot, &shared, handle_eid);
                        "won"
                    }
                    Err(_) => "panicked",
                }
            } else {
                let r = match slot {
                    SlotKind::Fresh(s) => setup.try_init_slot(s),
                    SlotKind::Shared => setup.try_init(),
                    SlotKind::Internal => setup.try_init_internal(),
                };
                match r {
                    Some(init) => {
                        check_handle(init, i, slot, &shared, handle_eid);
                        "won"
                    }
                    None => "lost",
                }
            };
            outcomes.lock().unwrap().push((i, won));
        }));
    }

    let flips: Arc<Mutex<Vec<(u32, i64)>>> = Arc::new(Mutex::new(Vec::new()));
    for j in 0..n_obs {
        let shared = shared.clone();
        let gate = gate.clone();
        let seen_enabled = seen_enabled.clone();
        let next_eid = next_eid.clone();
        let flips = flips.clone();
        let yields = splitmix(&mut st) % 4;
        handles.push(thread::spawn(move || {
            while !gate.load(Ordering::Acquire) {
                thread::yield_now();
            }
            for _ in 0..yields {
                thread::yield_now();
            }
            let mut my_winner: Option<u32> = None;
            let mut flip_at: i64 = -1;
            for round in 0..obs_rounds {
                let flag_before = seen_enabled.load(Ordering::SeqCst);
                let enabled = slot.is_enabled();
                let rt = slot.get();
                // the five components, read one by one through the same runtime reference
                let clock = rt.clock().now().map(|t| t.to_unix().as_secs());
                let rng = rt.rng().gen_u64();
                let ctxt = rt.ctxt().with_current(|p| p.pull::<u32, _>("ctxt_tag"));
                let eid = next_eid.fetch_add(1, Ordering::SeqCst);
                let before = shared.received.lock().unwrap().len();
                emit::emit!(rt, "observer {j} round {round}", eid);
                // a span through the same runtime
                let (mut guard, frame) = emit::new_span!(rt, "observer span", eid);
                frame.call(move || {
                    guard.start();
                });
                let flushed = rt.emitter().blocking_flush(Duration::ZERO);
                if !flushed {
                    shared.violations.lock().unwrap().push(format!("flush_false observer {j} round {round}: flush returned false"));
                }
                if let SlotKind::Shared = slot {
                    // the crate-level entry points over the shared slot: before initialisation safe no-ops (flush is
                    // true), afterwards the winner's components
                    if !emit::blocking_flush(Duration::ZERO) {
                        shared.violations.lock().unwrap().push(format!(
                            "flush_false observer {j} round {round}: emit::blocking_flush returned false (slot enabled: {enabled})"
                        ));
                    }
                    if !emit::emitter().blocking_flush(Duration::ZERO) {
                        shared.violations.lock().unwrap().push(format!("flush_false observer {j} round {round}: emit::emitter().blocking_flush returned false"));
                    }
                    let free_clock = emit::clock().now().map(|t| t.to_unix().as_secs());
                    let free_ctxt = emit::ctxt().with_current(|p| p.pull::<u32, _>("ctxt_tag"));
                    // the other two accessors: the rng is tagged, the filter counts its consultations
                    if let (Some(c), Some(r)) = (free_clock, emit::rng().gen_u64()) {
                        // (the rng read comes after the clock read: once the clock is the winner's, so is the rng)
                        if (r & 0xff) as u64 != c - 1000 {
                            shared.violations.lock().unwrap().push(format!(
                                "torn_configuration observer {j} round {round}: emit::clock() belongs to configuration {} and emit::rng() to {}", c - 1000, r & 0xff
                            ));
                        }
                    }
                    if let Some(c) = free_clock {
                        let w = (c - 1000) as usize;
                        let before = shared.filter_calls[w].load(Ordering::SeqCst);
                        let probe = emit::Event::new(emit::path!("probe"), emit::Template::literal("probe"), emit::Empty, emit::Empty);
                        let _ = emit::filter().matches(&probe);
                        if shared.filter_calls[w].load(Ordering::SeqCst) == before {
                            shared.violations.lock().unwrap().push(format!(
                                "torn_configuration observer {j} round {round}: emit::clock() belongs to configuration {w}, but emit::filter() did not consult that configuration's filter"
                            ));
                        }
                    }
                    if let (Some(c), Some(x)) = (free_clock, free_ctxt) {
                        if c != 1000 + x as u64 {
                            shared.violations.lock().unwrap().push(format!(
                                "torn_configuration observer {j} round {round}: emit::clock() belongs to configuration {} and emit::ctxt() to {x}", c - 1000
                            ));
                        }
                    }
                }
                let mine: Vec<Got> = shared.received.lock().unwrap()[before..]
                    .iter()
                    .filter(|g| g.thread == thread::current().id())
                    .cloned()
                    .collect();
                let tags: Vec<Option<u32>> = vec![
                    clock.map(|c| (c - 1000) as u32),
                    rng.map(|r| (r & 0xff) as u32),
                    ctxt,
                ];
                let any = tags.iter().any(|t| t.is_some()) || !mine.is_empty() || enabled;
                if flag_before && !any {
                    shared.violations.lock().unwrap().push(format!(
                        "disabled_after_enabled observer {j} round {round}: another thread had already observed the slot enabled, this one sees it empty"
                    ));
                }
                if any {
                    // everything must come from one and the same configuration
                    let w = tags.iter().flatten().next().copied().or(mine.first().map(|g| g.emitter));
                    let Some(w) = w else {
                        // is_enabled() said true; the next observation must be complete
                        continue;
                    };
                    if enabled {
                        seen_enabled.store(true, Ordering::SeqCst);
                    }
                    if let Some(prev) = my_winner {
                        if prev != w {
                            shared.violations.lock().unwrap().push(format!("winner_changed observer {j}: configuration {prev} then {w}"));
                        }
                    } else {
                        my_winner = Some(w);
                        flip_at = round as i64;
                    }
                    // components read after `enabled` was true must all be present and agree
                    if enabled {
                        if tags.iter().any(|t| *t != Some(w)) {
                            shared.violations.lock().unwrap().push(format!(
                                "torn_configuration observer {j} round {round}: clock/rng/ctxt tags {tags:?} do not all belong to configuration {w}"
                            ));
                        }
                        if mine.len() != 2 {
                            shared.violations.lock().unwrap().push(format!(
                                "event_lost observer {j} round {round}: slot enabled but {} of 2 emitted records arrived", mine.len()
                            ));
                        }
                    }
                    for g in &mine {
                        if g.emitter != w || g.clock != Some(1000 + w as u64) || g.ctxt != Some(w) {
                            shared.violations.lock().unwrap().push(format!(
                                "mixed_components observer {j} round {round}: record {g:?} mixes configurations (expected all {w})"
                            ));
                        }
                    }
                } else if my_winner.is_some() {
                    shared.violations.lock().unwrap().push(format!("went_back_to_empty observer {j} round {round}"));
                }
                thread::yield_now();
            }
            flips.lock().unwrap().push((j, flip_at));
        }));
    }

    // In half of the workloads (the driver picks workload seeds so that every slot kind occurs with and without) a *sibling* slot is already initialised (configuration 7) when the race starts: slots are
    // independent of each other, so the race must go exactly as it does in an otherwise empty process. For a fresh or
    // the internal slot the sibling is the shared slot; for the shared slot it is the internal one.
    let sibling = (seed / 3) % 2 == 1;
    if sibling {
        let setup = emit::setup()
            .emit_to(TagEmitter(7, shared.clone()))
            .emit_when(TagFilter(7, shared.clone()))
            .with_ctxt(TagCtxt(7))
            .with_clock(TagClock(7))
            .with_rng(TagRng(7));
        let ok = match slot {
            SlotKind::Shared => setup.try_init_internal().is_some(),
            _ => setup.try_init().is_some(),
        };
        if !ok {
            shared.violations.lock().unwrap().push("sibling_slot_not_initialised: the first initialiser of the sibling slot failed".into());
        }
    }

    gate.store(true, Ordering::Release);
    for h in handles {
        h.join().unwrap();
    }

    let mut outcomes = outcomes.lock().unwrap().clone();
    outcomes.sort();
    let winners: Vec<u32> = outcomes.iter().filter(|o| o.1 == "won").map(|o| o.0).collect();
    let mut violations = shared.violations.lock().unwrap().clone();
    if winners.len() != 1 {
        violations.push(format!("not_exactly_one_winner outcomes {outcomes:?}"));
    }
    for (i, o) in &outcomes {
        let uses_panicking = i - 1 == panicking_init;
        if *o == "lost" && uses_panicking || *o == "panicked" && !uses_panicking {
            violations.push(format!("wrong_failure_mode initialiser {i}: {o}"));
        }
    }
    if let Some(w) = winners.first() {
        for g in shared.received.lock().unwrap().iter() {
            if g.emitter != *w {
                violations.push(format!("loser_received_event emitter {} received {:?}, winner is {w}", g.emitter, g));
            }
        }
        for i in 1..=n_init {
            if i != *w && shared.filter_calls[i as usize].load(Ordering::SeqCst) > 0 {
                violations.push(format!("loser_filter_consulted filter {i} was consulted, winner is {w}"));
            }
        }
        // after everything settled the slot is enabled and complete
        if !slot.is_enabled() {
            violations.push("not_enabled_at_end".into());
        }
    }
    // every frame entered on a configuration's context was exited on it (all threads have been joined)
    for i in 0..8 {
        let (en, ex) = (CTXT_ENTERS[i].load(Ordering::SeqCst), CTXT_EXITS[i].load(Ordering::SeqCst));
        if en != ex {
            violations.push(format!("ctxt_enter_exit_unbalanced the context of configuration {i} was entered {en} times and exited {ex} times"));
        }
    }
    let mut flips = flips.lock().unwrap().clone();
    flips.sort();
    let sig = format!(
        "SIG seed={seed} slot={}{} inits={n_init} observers={n_obs} rounds={obs_rounds} outcomes={outcomes:?} flips={flips:?} records={}",
        slot.name(),
        if sibling { "+sibling" } else { "" },
        shared.received.lock().unwrap().len()
    );
    // one line per execution, so that concurrent executions (miri many-seeds) cannot interleave inside it
    if violations.is_empty() {
        println!("{sig} => OK");
    } else {
        println!("{sig} => VIOLATION {}", violations.join(" ;; "));
        std::process::exit(1);
    }
}
