#!/usr/bin/env python3
"""C20 check: the `vslot` program (racing initialisers / observers over a fresh AmbientSlot) under
miri's seeded scheduler. One (workload seed, preemption rate, miri seed) = one exact schedule."""
import json, os, re, subprocess, sys, time

VERIF = os.environ.get("VERIF_DIR", "/verif")
tier = sys.argv[1] if len(sys.argv) > 1 else "quick"
try:
    seed = int(os.environ.get("VERIF_SEED", "1"))
    if not 0 <= seed < 2**64:
        seed = 1
except ValueError:
    # like simcheck: a seed that is no unsigned 64-bit integer falls back to the default
    seed = 1
replay = None
if tier == "--replay":
    replay = json.load(open(sys.argv[2]))

def run(workload, rate, seeds, single=None):
    flags = f"-Zmiri-ignore-leaks -Zmiri-preemption-rate={rate} "
    flags += f"-Zmiri-seed={single}" if single is not None else f"-Zmiri-many-seeds={seeds[0]}..{seeds[1]}"
    env = dict(os.environ, MIRIFLAGS=flags, CARGO_NET_OFFLINE="true")
    p = subprocess.run(["cargo", "+nightly", "miri", "run", "--offline", "--", str(workload)],
                       cwd=f"{VERIF}/slot", env=env, capture_output=True, text=True)
    return p

def known_findings():
    try:
        return [k for k in json.load(open(f"{VERIF}/known_findings.json"))["known"] if k["property"] == "C20"]
    except Exception:
        return []

if replay:
    p = run(replay["workload"], replay["preemption_rate"], None, single=replay["miri_seed"])
    sys.stdout.write(p.stdout)
    bad = "VIOLATION" in p.stdout or "Undefined Behavior" in p.stderr or "Data race" in p.stderr or "abnormal termination" in p.stderr or "deadlock" in p.stderr
    if bad:
        sys.stderr.write(p.stderr[-3000:])
        print(f"VIOLATION property=C20 replay={sys.argv[2]}")
        sys.exit(1)
    sys.exit(0 if p.returncode == 0 else 2)

t0 = time.time()
# workload shapes derive from VERIF_SEED; schedules from miri seeds
def mix(a, b):
    x = (a * 0x9E3779B97F4A7C15 + b * 0xBF58476D1CE4E5B9 + 0x94D049BB133111EB) & 0xFFFFFFFFFFFFFFFF
    x ^= x >> 31
    return x % 1_000_000

# workload seed mod 3 selects the slot: fresh AmbientSlot / process-wide shared slot / process-wide internal slot;
# (workload seed / 3) mod 2 says whether a sibling slot is already initialised when the race starts
if tier == "thorough":
    workloads = [mix(seed, i) * 6 + i % 6 for i in range(12)]
    rates = ["0.02", "0.1", "0.5"]
    nseeds = 96
else:
    workloads = [mix(seed, i) * 6 + i % 6 for i in range(6)]
    rates = ["0.05", "0.3"]
    nseeds = 12

# build once (and fail as a harness error if that does not work)
b = subprocess.run(["cargo", "+nightly", "miri", "setup"], cwd=f"{VERIF}/slot", capture_output=True, text=True,
                   env=dict(os.environ, CARGO_NET_OFFLINE="true"))
evaluations = 0
sigs = set()
samples = []
violations = []
ub = []
harness = []
for w in workloads:
    for r in rates:
        p = run(w, r, (0, nseeds))
        lines = [l for l in p.stdout.splitlines() if l.startswith("SIG ")]
        evaluations += len(lines)
        for l in lines:
            sig, _, verdict = l.partition(" => ")
            sigs.add((w, sig))
            if len(samples) < 6:
                samples.append({"workload": w, "preemption_rate": r, "execution": l})
            if verdict.startswith("VIOLATION"):
                violations.append((w, r, l))
        if "Undefined Behavior" in p.stderr or "Data race detected" in p.stderr or "abnormal termination" in p.stderr or "deadlock" in p.stderr:
            # (an abort or a deadlock of the interpreted program is a verdict about the program, not a harness error)
            ub.append((w, r, p.stderr[-2500:]))
        elif p.returncode != 0 and not any(v[0] == w and v[1] == r for v in violations):
            harness.append((w, r, p.stderr[-1500:]))
        if len(lines) < nseeds and p.returncode == 0:
            harness.append((w, r, f"only {len(lines)} of {nseeds} executions reported"))

def find_seed(w, r):
    """Identify one failing miri seed by re-running seeds one at a time."""
    for s in range(nseeds):
        p = run(w, r, None, single=s)
        if "VIOLATION" in p.stdout or "Undefined Behavior" in p.stderr or "Data race detected" in p.stderr or "abnormal termination" in p.stderr or "deadlock" in p.stderr:
            return s, p
    return None, None

exit_code = 0
reported = []
os.makedirs(f"{VERIF}/replays", exist_ok=True)
known = known_findings()
seen_rules = set()
for (w, r, what) in [(v[0], v[1], v[2]) for v in violations] + [(u[0], u[1], "miri: undefined behaviour / data race: " + u[2][-600:]) for u in ub]:
    # (lines of concurrent executions can run into each other: skip a "VIOLATION" that is followed by another line's start)
    m = re.search(r"VIOLATION ((?!SIG\b)\w+)", what)
    rule = m.group(1) if m else "miri_ub_or_data_race"
    if rule in seen_rules:
        continue
    seen_rules.add(rule)
    k = next((k for k in known if k["rule"] == rule and k.get("trigger", "") in what), None)
    if k:
        print(f"KNOWN-FINDING: property=C20 rule={rule} {k['description']}")
        reported.append({"known_finding": True, "rule": rule})
        continue
    s, p = find_seed(w, r)
    path = f"{VERIF}/replays/C20-{rule}-{seed}-{w}-{r}-{s}.json"
    json.dump({"property": "C20", "rule": rule, "engine": "slot-miri", "workload": w, "preemption_rate": r, "miri_seed": s,
               "detail": what[:2000], "output": (p.stdout if p else ""), "stderr_tail": (p.stderr[-2000:] if p else ""),
               "replay": f"./check --replay {path}"}, open(path, "w"), indent=1)
    print(f"violation: property=C20 rule={rule} detail={what[:400]}")
    print(f"VIOLATION property=C20 replay={path}")
    reported.append({"known_finding": False, "rule": rule, "replay": path})
    exit_code = 1
if harness and exit_code == 0:
    for h in harness:
        sys.stderr.write(f"HARNESS-ERROR workload={h[0]} rate={h[1]}: {h[2]}\n")
    exit_code = 2

wall = time.time() - t0
winners = set()
for (_, s) in sigs:
    m = re.search(r"outcomes=(\[.*?\]) flips", s)
    if m:
        winners.add(m.group(1))
doc = {
    "property_id": "C20", "tier": tier, "seed": seed, "level": "exploration",
    "coverage": {
        "evaluations": evaluations,
        "distinct_nontrivial": len(sigs),
        "rule": "one execution = one (workload shape from VERIF_SEED: slot kind fresh / shared / internal, 2-4 racing initialisers incl. one init_slot under catch_unwind, 1-3 observers x 3-6 rounds, per-thread yield counts) x miri preemption rate x miri seed; every execution races initialisers with observers, so all are non-trivial; distinct = distinct outcome signature (who won, how each loser failed, at which round each observer first saw the slot enabled, records delivered) per workload",
        "samples": samples,
        "workloads": workloads, "preemption_rates": rates, "miri_seeds_per_cell": nseeds,
        "distinct_winner_patterns": len(winners),
        "executions_per_hour": int(evaluations / wall * 3600) if wall > 0 else 0,
        "fault_kinds": {"preemption_inside_OnceLock_and_get": "miri's seeded scheduler preempts at basic-block granularity (rate as listed) with weak-memory emulation and data-race detection"},
        "real_vs_stub": {"real": ["emit_core::runtime::{AmbientSlot, AmbientInternalSlot, shared_slot, internal_slot} (OnceLock, unsafe pointer cast in get)", "Setup::{try_init_slot, init_slot, try_init, init, try_init_internal, init_internal}", "Init::{get, emitter, ctxt, blocking_flush, flush_on_drop}, InitGuard::inner", "emit!/new_span! through slot.get() and through the winner's Init::get()", "std::sync::OnceLock (interpreted by miri)"],
                          "simulated": ["OS scheduler (miri, seeded)", "clock/rng/ctxt/filter/emitter are tagged stubs so torn configurations are visible"]},
        "reported": reported,
    },
    "assumptions": ["miri's scheduler and weak-memory model cover the interleavings an OS can produce between basic blocks; sampled, not exhaustive",
                    "leak checking is off (-Zmiri-ignore-leaks): the slot is leaked on purpose to get 'static"],
    "wall_s": wall, "violations": sum(1 for r in reported if not r["known_finding"]),
}
os.makedirs(f"{VERIF}/evidence", exist_ok=True)
json.dump(doc, open(f"{VERIF}/evidence/C20.json", "w"), indent=1)
print(f"check C20 tier={tier} seed={seed}: {evaluations} executions, {len(sigs)} distinct outcome signatures, {doc['violations']} violations, {wall:.1f}s")
sys.exit(exit_code)
