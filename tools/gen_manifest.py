#!/usr/bin/env python3
"""Regenerates /verif/MANIFEST.json from the table below (kept in one place so it stays valid)."""
import json, subprocess

GUARD = "emit_rs_emit_verif"

def hook_commits():
    out = subprocess.run(["git", "-C", "/repo", "log", "--format=%H %s"], capture_output=True, text=True).stdout
    return [l.split()[0] for l in out.splitlines() if "verif hook" in l]

CLAIMED = {
    "C06": dict(engine="chan-inline + chan-threads + tokio-receiver + file-e2e", design="5/C06",
        technique="deterministic simulation: seeded interleaving of sender operations with the real Receiver::exec under a scripted, fault-injecting processor; reference-queue oracle plus history checks",
        text="Seeded exploration (not exhaustive) of interleavings x processor outcome sequences of the real emit_batcher channel on a virtual clock. Every first-attempt batch must equal the reference queue's hand-off, every retry must equal the returned remainder, and the whole history is re-checked for exactly-once / FIFO / accounted truncation. Exploration is the right level: the property is over schedules and fault sequences, which only sampling at this scale (10^5..10^7 runs) reaches with the real code. Also: probes of the tokio-hosted receiver (emit_batcher::tokio::spawn) on real tokio threads judged by schedule-independent rules, idle stretches of 60-200 receiver polls, and receiver-side lock acquisitions that no hook announces as interleaving points.",
        note="Trusted: the reference queue model, the reduction argument that receiver-local steps commute with sender critical sections (so interleaving at lock hooks and processor/wait/watcher seams is complete for inline mode), the hook placement (one before_lock per acquisition of the channel state lock)."),
    "C07": dict(engine="chan-inline + chan-threads + tokio-receiver + file-e2e + otlp-delivery", design="5/C07",
        technique="deterministic simulation with fault injection; history check at the instant each flush reports completion",
        text="Seeded exploration of flush requests (when_flushed, async flush) racing with hand-off, retries, failures, panics and truncation; a post-hoc check over the recorded history demands that at the completion event of every flush no item sent before the request is queued, in flight or awaiting retry. Also: the tokio-hosted receiver on real tokio threads with tokio::flush / blocking_flush from plain threads and runtimes (flush true only when everything sent before has finished). The file engine also holds its runtime handle as the flush-on-drop guard (InitGuard): dropping it is a flush after which everything emitted must be durable.",
        note="Trusted: event sequence numbers are assigned by the single simulator thread; flushes completing at or after an injected receiver teardown carry no obligation (statement: while the receiver is alive)."),
    "C08": dict(engine="chan-inline + chan-threads + calling-contexts + tokio-receiver + file-e2e + otlp-delivery", design="5/C08",
        technique="deterministic simulation with fault injection; bounded-liveness and exactly-once-callback oracles on a virtual clock",
        text="Seeded exploration of processor outcome scripts (ok, permanent failure, retry with any remainder, panic in call or future, latency), panicking watchers, early sender drop; oracles: bounded attempts, non-decreasing bounded back-off reset per batch, callbacks exactly once, receiver drains and terminates within a step budget once the sender is dropped. Also: the tokio-hosted receiver on real tokio threads (termination on sender drop, flush and lossless sends succeed within a minute), idle stretches long enough for the idle back-off to sit at its cap for dozens of polls. A third of the retry storms hand out 200 failures, so that a batch which is never given up exceeds the bound of 64 attempts.",
        note="Trusted: step budget (2500 controller steps after close) is generous relative to the retry budget; retuned constants do not alarm (bounds are 64 attempts / 5 min)."),
    "C09": dict(engine="chan-inline + chan-threads + calling-contexts + tokio-receiver + file-e2e + otlp-delivery", design="5/C09",
        technique="deterministic simulation; reference-queue oracle compared with a state snapshot after every operation; lock-held-at-seam detector",
        text="Seeded exploration with small capacities, stalled / absent receivers and all send variants; after every operation the real queue length (snapshot hook and queue_length metric) must equal the reference queue and never exceed capacity; overflow keeps the newest item and counts once; try_send / async send hand the same item back, and only at or after expiry. Also: a blocking send that starts a wait past its deadline is a violation of this property too (hand back when the timeout expires). Memory is measured too: the simulator counts its live heap bytes, and in the file engine's overflow mode (up to three overflows of the 10 000-event channel while the worker sits in one stalled filesystem call) what a burst leaves allocated is bounded by what half a full queue cost.",
        note="Trusted: verif_snapshot() reads the same fields the channel uses; virtual-time expiry comparisons are exact."),
}

CLAIMED.update({
    "C10": dict(engine="fsim-faults + fsim-realfs + file-e2e", design="5/C10", level="fault_enumeration",
        technique="deterministic simulation with fault injection: per generated batch history, every filesystem call index x every fault kind (error, EINTR, short/zero/torn write, crash before/after/mid-write with crash-recovery variants) plus sampled multi-fault sequences, against a durable-view oracle",
        text="For each seeded batch history the real emit_file worker runs over an in-memory filesystem that separates written from synced content and volatile from durable directory entries. One fault-free pass counts the calls (strict oracle), then a single fault of every applicable kind is injected at every call index (exhaustive over single faults for that history), then 2-4-fault sequences are sampled. After every acknowledged batch each event must be a complete record in what the worst-case crash would leave; after every call and crash every record of every file must be an event, empty, or a truncated prefix ending exactly where a write was interrupted. Fault enumeration per sampled history is the right level: the property quantifies over call index x fault kind, which is finite per history and is covered completely; histories themselves are sampled. The end-to-end engine builds its file sets with the production FileSetBuilder::spawn (filesystem, clock and rng injected through a hook), starts a third of its reuse runs over a directory holding a leftover file of an earlier run (clean or torn tail), and the real-filesystem differential runs a third of its reuse plans with two live writers over one template.",
        note="Trusted: the filesystem model (a directory entry is durable only after sync_parent; un-synced suffixes may be lost in any part; deletions not followed by a directory sync may be undone); the harness re-submits a retry remainder like the channel does, a bounded number of times; events whose file the set's own retention deleted are exempt from the durability claim. StdFilesystem and real disks are not exercised under faults (fsim-realfs under C11 compares the model with them fault-free)."),
    "C11": dict(engine="fsim-rolling + fsim-realfs + file-e2e", design="5/C11",
        technique="deterministic simulation: generated configurations x directory contents x clock trajectories x batch histories with restarts, real worker against a reference rolling policy and the filesystem call log",
        text="Seeded exploration of configurations (templates with dotted / sibling-extended prefixes, roll interval, max_files 1..6/32, size limits, reuse), pre-existing directory contents (own files of earlier runs, sibling sets, strangers), clock trajectories (zero, forward, period-crossing, backward) and batch histories with restarts and overflow-built batches. A reference policy decides per batch whether a new file must start; the call log is checked for exactly one file written, strict name grammar with the period and counter of the clock reading, retention bound and order, no panic, and no touch of any file outside the set. In the fault-free rolling runs the clock moves on after every reading by the worker (0 to 3601 s per reading, per run): period and counter of a new name must come from one reading.",
        note="Trusted: the reference rolling policy and the strict name grammar (prefix.period.counter.id.ext with period of any of the three roll shapes); order-related rules apply only while the generated clock never steps back. The fsim-realfs engine additionally executes each generated plan over the production StdFilesystem in a scratch directory and demands byte-identical directory contents and batch outcomes after every step, so the filesystem model the verdicts rest on is itself checked against the real thing (fault-free only)."),
})

CLAIMED.update({
    "C03": dict(engine="ctx-frames", design="5/C03",
        technique="deterministic simulation: generated frame programs executed as tasks polled one poll at a time on seeded lanes (real OS threads, real thread-locals) with injected panics and cancellations, against a stack-of-maps reference",
        text="Seeded exploration of well-nested programs over the real Frame / ThreadLocalCtxt / erased-context API (push/root/disabled/current x enter/with/call/in_fn/in_future, re-entry, frames created in one place and entered in another, two isolated context instances plus the shared one), split over 1-4 tasks on 1-3 lanes plus hand-off threads. The seed decides which task is polled on which lane, where panics unwind and which suspended task is cancelled. At every observe point on every thread with_current must equal the innermost active frame of that strand; after every poll, cancellation, caught panic and thread exit every lane's ambient state must be empty for every context instance. Contexts are also reached through AssertInternal, AssertInternal<Option<..>> and Box.",
        note="Trusted: the stack-of-maps reference; keys are distinct within one frame (the statement's quantifier); programs are well nested by construction."),
})

CLAIMED.update({
    "C04": dict(engine="ctx-spans-tree", design="5/C04",
        technique="deterministic simulation: generated span trees through the real span macros executed on seeded lanes with hand-offs, checked against the known tree over the recorded history",
        text="Seeded exploration of span trees (sync fn, async fn, new_span!, Result fn, guard parameter; filter-disabled nodes; events and observations at arbitrary points; incoming ids as typed values or hex text) split over 1-3 tasks plus carried-frame sibling tasks and hand-off threads, polled one poll at a time on 1-3 lanes. The interpreter knows the tree; every recorded span and event must carry the root's (or incoming) trace id, span_parent must be the id of the nearest enabled ancestor, ids must be non-zero and pairwise distinct, events and SpanCtxt::current must show the innermost enabled span, and ambient ids must revert when a span ends. Incoming ids as hex text come in lower, upper and mixed case.",
        note="Trusted: the interpreter's tree bookkeeping; the counter rng never repeats; cancellation is excluded here (a cancelled async span completes outside its frame; C05 covers it and asserts no ids)."),
    "C05": dict(engine="ctx-spans-completion", design="5/C05",
        technique="deterministic simulation: generated guard-operation sequences and macro span forms with injected exit paths (Err, panic, early completion, cancellation) under scripted clocks (forward, equal, backwards, unavailable)",
        text="Seeded exploration of operation sequences on manual SpanGuards (with_mdl/with_name/with_props/map_props/with_completion/start repeated/complete/complete_with/drop) with uniform erased types so any order type-checks, plus all macro forms (span attribute on sync/async/Result functions, guard parameter, ok_lvl/err_lvl/panic_lvl, new_span!) and exit paths. Oracle: completions per guard = 1 iff enabled and started, is_enabled and returned bools agree with the model after every operation, extent = range [reading at start, reading at completion] attributed through a per-strand clock log (also when it runs backwards), name/module/props/completion as last set, panic adds err and the panic level. Explicit completions whose receiver (emitter or completion) panics after seeing the span must not complete again while the guard unwinds. Leveled macro forms with a panic level are part of the forms.",
        note="Trusted: the guard model; clock readings are attributed to strands through a thread-local set at every poll."),
    "C18": dict(engine="ctx-spans-traceparent", design="5/C18",
        technique="deterministic simulation: generated span trees over the real emit_traceparent runtime pieces with a scripted sampler, incoming headers, header propagation to fresh tasks, hand-offs and seeded interleavings",
        text="Seeded exploration over TraceparentCtxt<ThreadLocalCtxt> + TraceparentFilter with a scripted per-root sampler decision (optionally and in_sampled_trace_filter): the sampler log must show exactly one call per new trace at its root and none for children or continued traces; unsampled traces record no span (and no event with the sampled-trace filter) and report an unsampled traceparent; in sampled traces Traceparent::current() = (trace id, innermost span id, sampled) at every observation on every thread/task, a formatted header parsed and pushed in a fresh task makes its first span a child of the caller's span, and the previous traceparent is restored after every exit, suspend and panic (checked on every lane after every poll). Spans with an explicit span_id among their own properties (typed, hex text, integer) are part of the trees. Half of the pushed headers go through the crate-level emit_traceparent::push(traceparent, tracestate).",
        note="Trusted: the interpreter's tree bookkeeping; thread/task hand-offs use Frame::current(rt.ctxt()), the documented way to carry ambient context."),
})

CLAIMED.update({
    "C20": dict(engine="slot-miri", design="5/C20", cmd="c20",
        technique="deterministic simulation under miri's seeded scheduler: racing initialisers and observers over a fresh AmbientSlot, one miri seed = one exact schedule, with weak-memory emulation and data-race detection",
        text="A small program races 2-4 initialisers (try_init_slot, and one init_slot under catch_unwind) with 1-3 observers that read the five components, emit an event and open a span through slot.get() and flush, each component of configuration i tagged i. Run under cargo miri with many seeds x several preemption rates x workload shapes from VERIF_SEED; miri interprets the real OnceLock and the unsafe cast in AmbientSlot::get and preempts at basic-block granularity. Oracle: exactly one attempt wins, losers fail in their documented way and never receive an event or a filter call, nothing is observed before initialisation, once any thread has seen the slot enabled every later observation on every thread shows all five components of the winner together, no data race or UB. For every slot kind half of the workloads start with a sibling slot already initialised, and one initialiser in three initialises from inside the setup: of a #[span] function, whose span must then go through the winning runtime.",
        note="Trusted: miri's scheduler/weak-memory model as a stand-in for OS schedules; leak check off because the slot is leaked for 'static; -Zmiri-many-seeds aborts remaining seeds at the first failure."),
})

CLAIMED.update({
    "C12": dict(engine="otlp-delivery", design="5/C12",
        technique="deterministic simulation with fault injection: the real Otlp emitter (hyper, h2, gzip) over in-memory streams against a scripted collector on a simulated executor and virtual clock; collector-side history oracle",
        text="Seeded exploration of event streams (incl. 100-300 KiB payloads so a batch spans several size-limited requests), transports (HTTP/JSON, HTTP/protobuf, gRPC; gzip on/off), signal subsets on distinct simulated hosts, and per-request collector behaviour (ack, slow ack, 4xx/5xx or non-zero grpc-status, close before / after reading, reset mid-body, stall until the 30 s client timeout, refused connections, one host down forever), with the client thread (emit, blocking_flush, drop) interleaved with the worker by the baton scheduler. The collector log decides: every emitted event in an acknowledged request once a flush returned true or the emitter was dropped and its worker terminated; exactly one request when nothing failed; a failed request is followed by the same events, not before the back-off, on a new connection if the transport broke; an outage of one signal does not delay the others. Collector answers carry bodies and grpc-message values of every kind (long, multi-byte at every alignment, binary, percent-encoded, raw non-ASCII); the collector's promise of at most five failures in a row holds per batch also when batches are split; one event in ten is emitted from inside the formatting of another.",
        note="Trusted: the scripted collector and marker extraction (markers survive both encodings verbatim); faults stop inside the retry budget (at most 6 consecutive failures per signal); timers only fire when nothing is runnable (no artificial starvation of the worker against the 30 s request timeout). TLS and real sockets are not exercised."),
    "C14": dict(engine="otlp-routing", design="5/C14",
        technique="deterministic simulation: observation at the collector endpoints after worker, transport and retries, over all eight signal subsets incl. outage configurations; event shapes by seeded generation against a reference routing function",
        text="Events over kind {none, span, metric, unknown} x extent {none, point, range} x metric value {number, numeric sequence, text, missing} through all eight subsets of configured signals, fault-free and with collector faults / a dead host. Each marker must only ever appear at the endpoint a 10-line reference routing function names, and event_discarded must equal the number of unroutable events. The event-shape dimension is ordinary seeded generation; simulation contributes the observation point (what the collector endpoints actually receive, including retried requests) and the outage configurations. Span events carry ids typed, as text, partially, not at all or unparsable; one event in ten is emitted from inside the formatting of another (a panic out of Otlp::emit is a violation). Shadowed well-known keys sit in the same property list or in a second one chained behind with and_props.",
        note="Trusted: the reference routing function; the caveat in DESIGN.md section 5/C14 (the routing choice itself is schedule-independent)."),
})

PENDING = {
    "C03": "check not built yet (ctx engine in progress); will be claimed",
    "C04": "check not built yet (ctx engine in progress); will be claimed",
    "C05": "check not built yet (ctx engine in progress); will be claimed",
    "C10": "check not built yet (fsim engine in progress); will be claimed",
    "C11": "check not built yet (fsim engine in progress); will be claimed",
    "C12": "check not built yet (otlp engine in progress); will be claimed",
    "C14": "check not built yet (otlp engine in progress); will be claimed",
    "C18": "check not built yet (ctx engine in progress); will be claimed",
    "C20": "check not built yet (slot engine under miri in progress); will be claimed",
}

NA = {
    "C01": "pure function of (event, ambient props, clock reading, filter tree, emitter tree): no schedule, fault, crash point or time for a simulator to control",
    "C02": "pure function of a key/value list and a combinator nesting: nothing to schedule or fail",
    "C13": "encoders are pure functions of the event; a simulated collector would only be a capture device",
    "C15": "parsers/formatters are pure functions of a string or value",
    "C16": "template rendering and equality are pure functions",
    "C17": "level filtering is a pure function of (registered paths, module, level)",
    "C19": "capture fidelity is a pure function of (value, capture mode, read path); moving a value across threads has no interleaving in it",
}

def main():
    import os
    pending = {k: v for k, v in PENDING.items() if k not in CLAIMED}
    checks = []
    for pid, c in sorted(CLAIMED.items()):
        checks.append({
            "property_id": pid,
            "quick_cmd": f"./check {pid} quick",
            "thorough_cmd": f"./check {pid} thorough",
            "evidence_file": f"/verif/evidence/{pid}.json",
            "replay_cmd_template": "./check --replay {path}",
            "engine": c["engine"],
            "level_claimed": {"category": c.get("level", "exploration"), "text": c["text"], "design_ref": "DESIGN.md section " + c["design"]},
            "level_note": c["note"],
            "technique": c["technique"],
        })
    na = [{"property_id": k, "reason": v} for k, v in sorted({**NA, **pending}.items())]
    manifest = {
        "version": 1,
        "setup_cmd": "cd /verif/sim && CARGO_NET_OFFLINE=true cargo build --release --offline && cd /verif/slot && CARGO_NET_OFFLINE=true cargo +nightly miri setup && MIRIFLAGS='-Zmiri-ignore-leaks' CARGO_NET_OFFLINE=true cargo +nightly miri run --offline -- 1",
        "hooks": {
            "guard": GUARD,
            "enable": "RUSTFLAGS --cfg emit_rs_emit_verif, set in /verif/sim/.cargo/config.toml ([build] rustflags); the simulator crate depends on /repo crates by path",
            "baseline_off_cmd": "cd /repo && cargo test --workspace --no-fail-fast --offline",
            "source_commits": hook_commits(),
            "add_only": True,
        },
        "engines": [
            {"name": "chan-inline", "path": "/verif/sim/src/chan_inline.rs", "serves_properties": ["C06", "C07", "C08", "C09"],
             "kind_free_text": "single-OS-thread deterministic simulation of the real emit_batcher channel: seeded interleaver, virtual clock, scripted fault-injecting processor, reference queue"},
            {"name": "ctx-frames", "path": "/verif/sim/src/ctx_frames.rs", "serves_properties": ["C03"],
             "kind_free_text": "generated frame programs on a seeded lane executor (real threads, one poll at a time), panic and cancellation injection, stack-of-maps reference"},
            {"name": "ctx-spans-tree", "path": "/verif/sim/src/span_interp.inc.rs", "serves_properties": ["C04"],
             "kind_free_text": "generated span trees through the real macros on the seeded lane executor, plain ThreadLocalCtxt runtime"},
            {"name": "ctx-spans-completion", "path": "/verif/sim/src/span_interp.inc.rs", "serves_properties": ["C05"],
             "kind_free_text": "generated guard operation sequences and exit paths under scripted clocks"},
            {"name": "ctx-spans-traceparent", "path": "/verif/sim/src/span_interp.inc.rs", "serves_properties": ["C18"],
             "kind_free_text": "generated span trees over the emit_traceparent runtime pieces with scripted sampler and incoming headers"},
            {"name": "slot-miri", "path": "/verif/slot/src/main.rs", "serves_properties": ["C20"],
             "kind_free_text": "tagged racing initialisers/observers over AmbientSlot run under cargo miri (seeded scheduler, many seeds x preemption rates), driven by tools/c20.py"},
            {"name": "chan-threads", "path": "/verif/sim/src/chan_threads.rs", "serves_properties": ["C06", "C07", "C08", "C09"],
             "kind_free_text": "real sync.rs entry points on real OS threads under a baton-passing scheduler with virtual time, spurious wake-ups and early timers"},
            {"name": "calling-contexts", "path": "/verif/sim/src/ctx_probes.rs", "serves_properties": ["C08", "C09"],
             "kind_free_text": "deterministic probes of the blocking entry points' immediate paths from ten calling contexts (plain thread, tokio current-thread, multi-thread block_on / worker / spawn_blocking, LocalSet on either flavour, nested block_in_place, Runtime::enter)"},
            {"name": "tokio-receiver", "path": "/verif/sim/src/tokio_recv.rs", "serves_properties": ["C06", "C07", "C08", "C09"],
             "kind_free_text": "probes on real tokio threads (not scheduled by the simulator; only schedule-independent rules are judged): a receiver started with emit_batcher::tokio::spawn against a scripted processor, fed and flushed through send / tokio::send / blocking_send / tokio::flush / blocking_flush from plain threads and tokio runtimes; exactly-once in order, retry content, flush meaning, termination on sender drop"},
            {"name": "file-e2e", "path": "/verif/sim/src/file_e2e.rs", "serves_properties": ["C06", "C07", "C08", "C09", "C10", "C11"],
             "kind_free_text": "real FileSet(s) built by the production FileSetBuilder::spawn (JSON or custom writer, channel, worker thread, blocking_flush, And) over the simulated filesystem, clock and rng injected through the spawn hook, in thread mode with stalls and retryable faults"},
            {"name": "otlp-delivery", "path": "/verif/sim/src/otlp_sim.rs", "serves_properties": ["C12", "C07", "C08", "C09"],
             "kind_free_text": "real Otlp emitter over SimStream pipes against a scripted HTTP/1.1 + h2 collector on a simulated executor"},
            {"name": "otlp-routing", "path": "/verif/sim/src/otlp_sim.rs", "serves_properties": ["C14"],
             "kind_free_text": "same engine, event-shape x signal-subset workload with routing oracle"},
            {"name": "fsim-faults", "path": "/verif/sim/src/fsim.rs", "serves_properties": ["C10"],
             "kind_free_text": "real emit_file worker over a fault-injecting in-memory filesystem (written vs synced, durable vs volatile entries); single-fault enumeration per generated history + sampled multi-fault sequences"},
            {"name": "fsim-realfs", "path": "/verif/sim/src/fs_diff.rs", "serves_properties": ["C10", "C11"],
             "kind_free_text": "model fidelity: each generated fault-free plan runs through the real worker over SimFs and over the production StdFilesystem (scratch directory, same injected clock and rng); directory contents and batch outcomes must agree after every step"},
            {"name": "fsim-rolling", "path": "/verif/sim/src/fsim.rs", "serves_properties": ["C11"],
             "kind_free_text": "real emit_file worker over the in-memory filesystem with scripted clock/rng against a reference rolling policy"},
        ],
        "checks": checks,
        "not_applicable": na,
        "notes": "All randomness derives from VERIF_SEED (default 1) through one PRNG; a replay file is the recorded choice list and re-executes exactly (./check --replay <file>). Exit 2 = harness error, never a verdict.",
    }
    json.dump(manifest, open("/verif/MANIFEST.json", "w"), indent=1)
    print("MANIFEST.json written:", len(checks), "checks,", len(na), "not_applicable")

main()
