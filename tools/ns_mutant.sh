#!/bin/bash
# usage: tools/ns_mutant.sh <patch-file> <prop>...
# Like try_mutant.sh, but the real /repo is never touched: the patch is applied to a scratch clone of /repo's HEAD
# that is bind-mounted over /repo in a private mount namespace, together with scratch build, evidence and replay
# directories, and the harness sources (sim/src, slot/src, tools) are those of /verif's HEAD commit. Safe to use while a
# sweep that rebuilds from /repo is running and while /verif's working tree is being edited. Scratch space: /tmp/mutns (remove it
# when done: rm -rf /tmp/mutns).
patch="$1"; shift
case "$patch" in /*) ;; *) patch="$(pwd)/$patch";; esac
S=/tmp/mutns
head=$(git -C /repo rev-parse HEAD)
if [ ! -d "$S/repo/.git" ]; then
  mkdir -p "$S" && git clone -q /repo "$S/repo" || exit 2
fi
git -C "$S/repo" fetch -q origin 2>/dev/null
git -C "$S/repo" checkout -q --detach "$head" 2>/dev/null || { echo "scratch clone cannot reach $head"; exit 2; }
git -C "$S/repo" checkout -q -- . ; git -C "$S/repo" clean -fdq -e target
mkdir -p "$S/target" "$S/slot-target" "$S/evidence" "$S/replays"
# the harness sources are those of /verif's HEAD commit, not the working tree (which may be mid-edit)
rm -rf "$S/vh"; mkdir -p "$S/vh"
git -C /verif archive HEAD sim/src slot/src tools | tar -x -C "$S/vh" || exit 2
cp -a /verif/evidence/. "$S/evidence"/ 2>/dev/null
props="$*"
exec unshare -m bash -c "
  mount --bind $S/repo /repo &&
  mount --bind $S/target /verif/sim/target &&
  mount --bind $S/slot-target /verif/slot/target &&
  mount --bind $S/evidence /verif/evidence &&
  mount --bind $S/replays /verif/replays &&
  mount --bind $S/vh/sim/src /verif/sim/src &&
  mount --bind $S/vh/slot/src /verif/slot/src &&
  mount --bind $S/vh/tools /verif/tools || exit 2
  /verif/tools/try_mutant.sh '$patch' $props
"
