#!/bin/bash
# usage: ns_cmd.sh <patch> <command...> : apply patch in the namespace clone, build, run the command (cwd /verif), revert
patch="$1"; shift
S=/tmp/mutns
head=$(git -C /repo rev-parse HEAD)
git -C "$S/repo" fetch -q origin 2>/dev/null
git -C "$S/repo" checkout -q --detach "$head"; git -C "$S/repo" checkout -q -- . ; git -C "$S/repo" clean -fdq -e target
rm -rf "$S/vh"; mkdir -p "$S/vh"; git -C /verif archive HEAD sim/src slot/src tools | tar -x -C "$S/vh"
cmd="$*"
exec unshare -m bash -c "
  mount --bind $S/repo /repo && mount --bind $S/target /verif/sim/target && mount --bind $S/slot-target /verif/slot/target &&
  mount --bind $S/evidence /verif/evidence && mount --bind $S/replays /verif/replays && mount --bind $S/vh/sim/src /verif/sim/src || exit 2
  cd /repo && git apply '$patch' || exit 2
  cd /verif/sim && cargo build --release --offline 2>&1 | grep -E '^error' -A10
  cd /verif && $cmd
  cd /repo && git checkout -q -- .
"
