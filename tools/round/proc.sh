#!/bin/bash
# usage: proc.sh <id> <props...>  : verify seeded change then run checks in namespace
id=$1; shift
cd /verif
{
echo "### $id"
tools/verify_seeded.sh $id 2>&1 | tail -1
tools/ns_mutant.sh /tmp/wtout/$id/patch.diff "$@" 2>&1 | grep -v "^rm:" | cut -c1-400
} > /tmp/p/res_$id.txt 2>&1
