#!/bin/bash
# sequential runner: takes lines "<id> <props...>" off /tmp/p/queue.txt one at a time
touch /tmp/p/queue.txt
while true; do
  line=$(head -1 /tmp/p/queue.txt)
  if [ -z "$line" ]; then sleep 5; continue; fi
  sed -i '1d' /tmp/p/queue.txt
  echo "$line" > /tmp/p/current.txt
  /tmp/p/proc.sh $line
  echo "$line" >> /tmp/p/finished.txt
  : > /tmp/p/current.txt
done
