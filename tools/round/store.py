import json,sys,shutil,os,subprocess
rid=sys.argv[1]
src=f'/tmp/wtout/{rid}'; dst=f'/verif/seeded/{rid}'
os.makedirs(dst,exist_ok=True)
shutil.copy(f'{src}/patch.diff',f'{dst}/patch.diff')
if os.path.isdir(f'{dst}/demo'): shutil.rmtree(f'{dst}/demo')
shutil.copytree(f'{src}/demo',f'{dst}/demo')
if os.path.exists(f'{src}/verify.env'): shutil.copy(f'{src}/verify.env',f'{dst}/demo/verify.env')
m=json.load(open(f'{src}/meta.json'))
rnd="twelfth" if rid.endswith("r12") else "eleventh" if rid.endswith("r11") else ("tenth" if rid.endswith("r10") else "ninth"); base="619ddc0" if rid.endswith("r9") else "a600e52"; m["origin"]=f"written by an independent sub-agent ({rnd} round: given only the property text, a list of the edits earlier rounds had already tried for this property" + (", a general hint to look beyond the central functions (wiring, Drop/Clone/Default, conversions, forwarding impls, macro expansions, emit_core building blocks)" if not rid.endswith("r9") else "") + f", and a scratch worktree of /repo at {base}; told not to read /verif, /repo or /root/.claude)"
res=open(f'/tmp/p/res_{rid}.txt').read() if os.path.exists(f'/tmp/p/res_{rid}.txt') else ''
ver=[l for l in res.splitlines() if l.startswith(rid+':')]
m['confirmed_by_me']="tools/verify_seeded.sh "+rid+" in the scratch worktree: "+(ver[0].split(': ',1)[1] if ver else 'see DESIGN 11.5')
m['checks_run']=f"tools/ns_mutant.sh seeded/{rid}/patch.diff <property> (patch applied to a scratch clone of /repo bind-mounted over /repo in a private mount namespace)"
m['caught_by']=json.loads(sys.argv[2])
json.dump(m,open(f'{dst}/meta.json','w'),indent=1)
print('stored',rid)
