#!/bin/bash
# Determinism self-test: every engine runs the same N seeds in two fresh processes with different
# worker-thread counts; the per-run history hashes must be identical.
cd "$(dirname "$0")/.."
N="${1:-2000}"
bin=sim/target/release/simcheck
fail=0
for spec in "chan-inline C06" "chan-threads C08" "fsim-faults C10" "fsim-rolling C11" "ctx-frames C03" "ctx-spans-tree C04" "ctx-spans-completion C05" "ctx-spans-traceparent C18" "otlp-delivery C12" "otlp-routing C14" "file-e2e C07" "calling-contexts C08" "fsim-realfs C11" "tokio-receiver C07"; do
  set -- $spec
  n=$N; [ "$1" = "fsim-faults" ] && n=$((N/20)); [ "$1" = "tokio-receiver" ] && n=$((N/10))
  a=$(VERIF_THREADS=1 $bin hashes $1 $2 $n | md5sum)
  b=$(VERIF_THREADS=7 $bin hashes $1 $2 $n | md5sum)
  c=$(VERIF_THREADS=16 VERIF_SEED=1 $bin hashes $1 $2 $n | md5sum)
  if [ "$a" = "$b" ] && [ "$b" = "$c" ]; then echo "deterministic: $1 ($n runs x 3 processes, 1/7/16 threads)"; else echo "NONDETERMINISTIC: $1"; fail=1; fi
done
exit $fail
