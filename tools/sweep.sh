#!/bin/bash
# usage: tools/sweep.sh <tier> <seed>...   runs every registered check at the given tier for each seed;
# prints one line per (property, seed) and a summary. Evidence files are restored afterwards when run
# from a snapshot (they belong to the registered default-seed run).
tier="${1:-quick}"; shift
cd "$(dirname "$0")/.."
export VERIF_DIR="$(pwd)"
props=$(python3 -c "import json; print(' '.join(c['property_id'] for c in json.load(open('MANIFEST.json'))['checks']))")
bad=0
for seed in "$@"; do
  for p in $props; do
    start=$(date +%s)
    out=$(VERIF_SEED=$seed ./check $p $tier 2>&1); code=$?
    end=$(date +%s)
    echo "seed=$seed $p exit=$code $((end-start))s :: $(echo "$out" | grep -E '^check ' | tail -1 | cut -c1-160)"
    if [ $code -ne 0 ]; then bad=$((bad+1)); echo "$out" | grep -E "^(violation|VIOLATION|HARNESS)" | cut -c1-400; fi
  done
done
echo "SWEEP DONE: $bad non-zero exits"
