#!/bin/bash
# usage: try_mutant.sh <patch-file> <prop>...   apply patch to /repo, run quick checks, revert
patch="$1"; shift
cd /repo || exit 2
if ! git diff --quiet; then echo "/repo has uncommitted changes"; exit 2; fi
case "$patch" in /*) ;; *) patch="$OLDPWD/$patch";; esac
git apply "$patch" || { echo "patch does not apply"; exit 2; }
# evidence written while a changed /repo is in place must never end up committed: keep the real files aside
bak=$(mktemp -d /tmp/evidence-bak.XXXXXX); cp -a /verif/evidence/. "$bak"/
for p in "$@"; do
  out=$(cd /verif && VERIF_EVIDENCE_SKIP=1 ./check "$p" quick 2>&1); code=$?
  echo "== $p exit=$code"; echo "$out" | grep -E "^(violation|VIOLATION|KNOWN|HARNESS|check )" | cut -c1-300
done
git checkout -- .
rm -rf /verif/evidence; mkdir -p /verif/evidence; cp -a "$bak"/. /verif/evidence/; rm -rf "$bak" 
