#!/bin/bash
# usage: verify_seeded.sh <id>   - confirms in the sub-agent's scratch worktree that (a) the existing tests pass with the
# patch, (b) the demonstration fails with it and (c) passes without it. Prints a summary line.
id="$1"; wt=/tmp/wt/$id; out=/tmp/wtout/$id
cd $wt || exit 2
git checkout -q -- . ; git clean -fdq -e target
case $id in
  C03) crate="-p emit --lib"; demo_install="mkdir -p tests && cp $out/demo/c03_unwind_frame.rs tests/"; demo_run="cargo test -p emit --offline --test c03_unwind_frame";;
  C05) crate="-p emit --lib"; demo_install="mkdir -p tests && cp $out/demo/c05_demo.rs tests/"; demo_run="cargo test -p emit --offline --test c05_demo";;
  C06) crate="-p emit_batcher --features tokio"; demo_install="mkdir -p batcher/tests && cp $out/demo/c06_send_truncate_race.rs batcher/tests/"; demo_run="env RUSTFLAGS=--cfg=emit_rs_emit_verif cargo test -p emit_batcher --features tokio --offline --test c06_send_truncate_race";;
  C07) crate="-p emit_batcher --features tokio"; demo_install="mkdir -p batcher/tests && cp $out/demo/c07_flush_truncation.rs batcher/tests/"; demo_run="cargo test -p emit_batcher --features tokio --offline --test c07_flush_truncation";;
  C08) crate="-p emit_batcher --features tokio"; demo_install="mkdir -p batcher/tests && cp $out/demo/c08_panicking_watcher.rs batcher/tests/"; demo_run="cargo test -p emit_batcher --features tokio --offline --test c08_panicking_watcher";;
  C10) crate="-p emit_file"; demo_install="git apply $out/demo/demo.diff"; demo_run="cargo test -p emit_file --offline --lib c10_demo";;
  C11) crate="-p emit_file"; demo_install="git apply $out/demo/demo.diff"; demo_run="cargo test -p emit_file --offline --lib demo_c11";;
  C12) crate="-p emit_otlp"; demo_install="mkdir -p emitter/otlp/tests && cp $out/demo/c12_demo.rs emitter/otlp/tests/"; demo_run="cargo test -p emit_otlp --offline --test c12_demo";;
  *) [ -f $out/verify.env ] && . $out/verify.env || { echo "no recipe for $id"; exit 2; };;
esac
git apply $out/patch.diff || { echo "$id: patch does not apply"; exit 2; }
a=$(cargo test $crate --offline 2>&1 | grep -E "^test result" | awk '{p+=$4; f+=$6} END {print p" passed "f" failed"}')
eval "$demo_install"
b=$(eval "$demo_run" 2>&1 | grep -E "^test result" | awk '{p+=$4; f+=$6} END {print p" passed "f" failed"}')
git apply -R $out/patch.diff
c=$(eval "$demo_run" 2>&1 | grep -E "^test result" | awk '{p+=$4; f+=$6} END {print p" passed "f" failed"}')
git checkout -q -- . ; git clean -fdq -e target
echo "$id: existing tests with patch: [$a] | demo with patch: [$b] | demo without patch: [$c]"
